#!/usr/bin/env python3
"""Regenerate MANIFEST.json from the table below (single source of truth for the interface)."""
import json, os, sys
sys.path.insert(0, os.path.join(os.path.dirname(os.path.abspath(__file__)), "..", "lib"))
from vlib import manifest_data as md

props = [json.loads(l) for l in open("/verif/properties.jsonl")]
checks = []
na = []
for p in props:
    pid = p["id"]
    if pid in md.CLAIMED:
        c = md.CLAIMED[pid]
        checks.append({
            "property_id": pid,
            "quick_cmd": "bin/check %s --tier quick" % pid,
            "thorough_cmd": "bin/check %s --tier thorough" % pid,
            "evidence_file": "/verif/evidence/%s.json" % pid,
            "replay_cmd_template": "bin/check %s --replay {path}" % pid,
            "engine": "tlc",
            "level_claimed": {"category": "model_checking", "text": c["text"], "design_ref": c["ref"]},
            "level_note": c["note"],
            "technique": c["technique"],
        })
    else:
        na.append({"property_id": pid, "reason": md.NOT_YET.get(pid, "check not built yet in this session; planned in DESIGN.md section 5")})
m = {
    "version": 1,
    "setup_cmd": md.SETUP,
    "hooks": md.HOOKS,
    "engines": [{"name": "tlc", "path": "/verif/spec", "serves_properties": sorted(md.CLAIMED),
                 "kind_free_text": "explicit TLA+ specification checked with TLC; bound to the crate by trace validation (implementation -> spec) and replay of TLC-generated behaviours (spec -> implementation) through the Rust harness /verif/harness"}],
    "checks": checks,
    "notes": md.NOTES,
    "not_applicable": na,
}
json.dump(m, open("/verif/MANIFEST.json", "w"), indent=1)
print("claimed:", len(checks), "not claimed:", len(na))

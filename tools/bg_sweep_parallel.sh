#!/bin/bash
# background job (vp run): the seeded sweep in eight parallel slices, results concatenated into SWEEP.md
run() { SWEEP_VERIF=$PWD SWEEP_OUT=$PWD/SWEEP_$1.md tools/sweep_seeded.py "${@:2}" > sweep_$1.log 2>&1; }
run 1 C01 C02 C03 C04 C05 C06 C07 C08 C09 C10 &
run 2 C11 C12 C13 C14 C15 C16 C17 C18 C19 C20 &
run 3 W X Y &
run 4 Z A R &
run 5 S T U &
run 6 V P Q &
run 7 M N K J &
run 8 L H G F &
wait
{ head -4 SWEEP_1.md; for i in 1 2 3 4 5 6 7 8; do tail -n +5 SWEEP_$i.md; done; } > SWEEP.md
echo "sweep done: $(grep -c '| caught |' SWEEP.md) caught, $(grep -c 'NOT CAUGHT\|DOES NOT APPLY' SWEEP.md) not"
grep 'NOT CAUGHT\|DOES NOT APPLY' SWEEP.md

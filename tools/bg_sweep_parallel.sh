#!/bin/bash
# background job (vp run): the seeded sweep in five parallel slices, results concatenated into SWEEP.md
run() { SWEEP_VERIF=$PWD SWEEP_OUT=$PWD/SWEEP_$1.md tools/sweep_seeded.py "${@:2}" > sweep_$1.log 2>&1; }
run 1 C01 C02 C03 C04 C05 C06 C07 C08 C09 C10 W X &
run 2 C11 C12 C13 C14 C15 C16 C17 C18 C19 C20 Y Z A &
run 3 R S T U V &
run 4 P Q M N K &
run 5 J L H G F &
wait
{ head -4 SWEEP_1.md; for i in 1 2 3 4 5; do tail -n +5 SWEEP_$i.md; done; } > SWEEP.md
echo "sweep done: $(grep -c '| caught |' SWEEP.md) caught, $(grep -c 'NOT CAUGHT\|DOES NOT APPLY' SWEEP.md) not"
grep 'NOT CAUGHT\|DOES NOT APPLY' SWEEP.md

#!/bin/bash
# usage: run_benign.sh <patch> <check ids...>  -- apply a behaviour-preserving change to /repo, run the checks (quick):
# every check must exit 0 (NOTE lines allowed); undo straight away
P=$1; shift
git -C /repo apply "$P" || exit 2
for c in "$@"; do
  out=$(cd /verif && bin/check $c 2>&1); rc=$?
  echo "  $c rc=$rc viol=$(echo "$out" | grep -c '^VIOLATION') notes=$(echo "$out" | grep -c '^NOTE') $(echo "$out" | grep '^VIOLATION\|^NOTE' | cut -c1-160 | head -3 | tr '\n' '|')"
done
git -C /repo checkout -- .

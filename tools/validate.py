#!/usr/bin/env python3-vt
"""Validate MANIFEST.json and every evidence file against the schemas in /root/.vp."""
import glob, json, sys, jsonschema
ok = True
def v(path, schema):
    global ok
    try:
        jsonschema.validate(json.load(open(path)), json.load(open(schema)))
        print("ok      ", path)
    except Exception as e:
        ok = False
        print("INVALID ", path, str(e)[:400])
if len(sys.argv) > 1:
    for p in sys.argv[1:]:
        v(p, "/root/.vp/EVIDENCE.schema.json")
else:
    v("/verif/MANIFEST.json", "/root/.vp/MANIFEST.schema.json")
    for p in sorted(glob.glob("/verif/evidence/*.json")):
        v(p, "/root/.vp/EVIDENCE.schema.json")
sys.exit(0 if ok else 1)

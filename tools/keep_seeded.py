#!/usr/bin/env python3
"""keep_seeded.py <name> <agent outdir> <property> <caught-by (comma list)> [note]
Copies a confirmed seeded change into /verif/seeded/<name>/ with a meta.json recording what was run."""
import json, os, shutil, subprocess, sys
name, out, prop, caught = sys.argv[1:5]
note = sys.argv[5] if len(sys.argv) > 5 else ""
d = os.path.join("/verif/seeded", name)
os.makedirs(d, exist_ok=True)
shutil.copy(os.path.join(out, "patch.diff"), d)
shutil.copy(os.path.join(out, "demo.rs"), d)
meta = {}
try:
    meta = json.load(open(os.path.join(out, "meta.json")))
except Exception:
    pass
meta = {"property": prop, "summary": meta.get("summary", ""), "needs": meta.get("needs", ""), "files": meta.get("files", []),
        "origin": "independent sub-agent given only the property text and a scratch worktree",
        "confirmed": {"how": "tools/confirm_seeded.sh in a scratch worktree under /tmp: cargo test --offline --lib with the change (60 pass); "
                             "tests/demo.rs fails with the change and passes without it",
                      "unit_tests_pass_with_change": True, "demo_fails_with_change": True, "demo_passes_without_change": True},
        "checks_run": "tools/run_seeded.sh <patch> <checks> (git -C /repo apply; bin/check <id> quick; git -C /repo checkout -- .)",
        "caught_by": [c for c in caught.split(",") if c], "note": note}
json.dump(meta, open(os.path.join(d, "meta.json"), "w"), indent=1)
print("kept", d)

#!/bin/bash
# usage: run_seeded.sh <patch.diff> <check ids...>   -- apply to /repo, run the checks (quick), undo straight away
P=$1; shift
git -C /repo apply "$P" || exit 2
for c in "$@"; do
  out=$(cd /verif && bin/check $c 2>&1); rc=$?
  echo "  $c rc=$rc $(echo "$out" | grep -c '^VIOLATION') violation line(s): $(echo "$out" | grep '^VIOLATION' | sed 's/.*replay=.*replays\///' | tr '\n' ' ' | cut -c1-300)"
done
git -C /repo checkout -- .

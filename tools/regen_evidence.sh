#!/bin/bash
# run every quick check on the current tree (must be clean of seeded patches), then validate manifest + evidence
cd /verif
git -C /repo diff --quiet || { echo "/repo has uncommitted changes"; exit 2; }
bad=0
for p in C01 C02 C03 C04 C05 C06 C07 C08 C09 C10 C11 C12 C13 C14 C15 C16 C17 C18 C19 C20; do
  s=$(date +%s); bin/check $p > work/regen_$p.log 2>&1; rc=$?
  echo "$p rc=$rc $(( $(date +%s) - s ))s $(grep -c '^VIOLATION' work/regen_$p.log) viol $(grep -c '^KNOWN-FINDING' work/regen_$p.log) known"
  [ $rc -ne 0 ] && bad=1
done
tools/validate.py | grep -v "^ok" ; exit $bad

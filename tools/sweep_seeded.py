#!/usr/bin/env python3
"""Re-run every kept seeded change against the checks that are recorded to catch it (and report any that no
longer does).  Each change is applied in a scratch worktree under /tmp (removed afterwards) and the checks are
pointed at it with VERIF_REPO, so /repo's working tree is not touched and this can run in the background.
Writes /verif/seeded/SWEEP.md (or $SWEEP_OUT)."""
import json, os, subprocess, sys, time
SEEDED = "/verif/seeded"
VERIF = os.environ.get("SWEEP_VERIF", "/verif")
out_path = os.environ.get("SWEEP_OUT", os.path.join(SEEDED, "SWEEP.md"))
names = sorted(d for d in os.listdir(SEEDED) if os.path.isfile(os.path.join(SEEDED, d, "meta.json")))
if len(sys.argv) > 1:
    names = [n for n in names if any(n.startswith(a) for a in sys.argv[1:])]
rows = []
head = subprocess.run(["git", "-C", "/repo", "rev-parse", "--short", "HEAD"], capture_output=True, text=True).stdout.strip()
for name in names:
    d = os.path.join(SEEDED, name)
    meta = json.load(open(os.path.join(d, "meta.json")))
    patch = os.path.join(d, "patch_head.diff" if os.path.exists(os.path.join(d, "patch_head.diff")) else "patch.diff")
    wt = "/tmp/sweep_wt_%d" % os.getpid()
    subprocess.run(["git", "-C", "/repo", "worktree", "add", "-q", "--detach", wt, "HEAD"], check=True)
    try:
        ap = subprocess.run(["git", "-C", wt, "apply", patch], capture_output=True, text=True)
        if ap.returncode != 0:
            rows.append((name, meta["property"], "PATCH DOES NOT APPLY", ""))
            continue
        res = []
        for c in meta.get("caught_by", []):
            t0 = time.time()
            p = subprocess.run(["bin/check", c], cwd=VERIF, env=dict(os.environ, VERIF_REPO=wt), capture_output=True, text=True)
            nv = sum(1 for l in p.stdout.splitlines() if l.startswith("VIOLATION"))
            res.append("%s: rc=%d, %d VIOLATION line(s), %.0fs" % (c, p.returncode, nv, time.time() - t0))
        ok = all("rc=1" in r for r in res)
        rows.append((name, meta["property"], "caught" if ok else "NOT CAUGHT BY ALL", "; ".join(res)))
        print(name, rows[-1][2], rows[-1][3], flush=True)
    finally:
        subprocess.run(["git", "-C", "/repo", "worktree", "remove", "--force", wt])
        subprocess.run(["rm", "-rf", os.path.join(VERIF, "work", "harness-" + __import__("hashlib").md5(wt.encode()).hexdigest()[:8])])
with open(out_path, "w") as f:
    f.write("# Seeded changes vs. checks (quick tier, seed 1), /repo at %s\n\n" % head)
    f.write("| seeded change | property | verdict | checks |\n|---|---|---|---|\n")
    for r in rows:
        f.write("| %s | %s | %s | %s |\n" % r)
bad = [r for r in rows if r[2] != "caught"]
print("%d seeded changes, %d not caught" % (len(rows), len(bad)))
sys.exit(1 if bad else 0)

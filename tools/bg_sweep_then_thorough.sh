#!/bin/bash
# background job: seeded sweep (against scratch worktrees), then the thorough tier of the remaining checks
SWEEP_VERIF=$PWD SWEEP_OUT=$PWD/SWEEP.md tools/sweep_seeded.py > sweep.log 2>&1
echo "sweep done: $(tail -1 sweep.log)"
tools/thorough_all.sh C04 C14 C13 C11 C12 C07 C08 C17 C09 C06 C15 C20 C01

#!/bin/bash
# run the thorough tier of the given checks one after the other (used with `vp run --with-repo`)
export VERIF_REPO=${VP_RUN_REPO:-/repo}
for p in "$@"; do
  s=$(date +%s)
  bin/check $p --tier thorough > thorough_$p.log 2>&1; rc=$?
  echo "$p rc=$rc $(( $(date +%s) - s ))s $(grep -c '^VIOLATION' thorough_$p.log) violations $(tail -1 thorough_$p.log)"
done

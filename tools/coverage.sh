#!/bin/bash
# Line coverage of /repo/src under the quick-tier drivers (llvm-cov, nightly toolchain).  Not a registered check:
# a diagnostic for blind spots of the generated families.  Scratch under /tmp/cov (removed at the end).
set -e
B=$(ls -d ~/.rustup/toolchains/nightly-x86_64-unknown-linux-gnu/lib/rustlib/*/bin)
rm -rf /tmp/cov && mkdir -p /tmp/cov/prof /tmp/cov/out && cp -r /verif/harness /tmp/cov/h && rm -rf /tmp/cov/h/target
cat > /tmp/cov/h/.cargo/config.toml <<EOC
[net]
offline = true
[build]
target-dir = "target"
rustflags = ["--cfg", "aws_smt_strings_verif", "--check-cfg", "cfg(aws_smt_strings_verif)", "-C", "instrument-coverage"]
EOC
(cd /tmp/cov/h && cargo +nightly build --offline --quiet)
V=/tmp/cov/h/target/debug/vh
gen() { (cd /verif/spec && java -XX:+UseParallelGC -Xmx4g -Xmn256m -Xss256m -cp /opt/veriftools/tla/tla2tools.jar:/opt/veriftools/tla/CommunityModules-deps.jar tlc2.TLC -workers 1 -fpmem 0.05 -metadir /tmp/cov/md -cleanup -noGenerateSpecTE -config $2 $1.tla 2>&1 | grep '^"{' | python3 -c "
import sys,json
for l in sys.stdin: print(json.loads(l))") > $3; }
gen MC_PartGen MC_PartGen.cfg /tmp/cov/part.ndjson; gen MC_Dfa MC_Dfa.cfg /tmp/cov/dfa.ndjson
gen MC_Builder MC_Builder.cfg /tmp/cov/b0.ndjson; awk 'NR%4==1' /tmp/cov/b0.ndjson > /tmp/cov/builder.ndjson
gen MC_Manager MC_Manager.cfg /tmp/cov/m0.ndjson; awk 'NR%16==1' /tmp/cov/m0.ndjson > /tmp/cov/manager.ndjson
gen MC_Components MC_Components.cfg /tmp/cov/comp.ndjson
VH_STRIDE=503 VH_OFFSET=1 gen MC_Terms MC_Terms.cfg /tmp/cov/terms.ndjson
export LLVM_PROFILE_FILE="/tmp/cov/prof/vh-%p-%m.profraw"
cd /tmp/cov
for f in charsets loopranges c06 c08 c09 c17 partitions builder automata c10 c16 manager; do $V drive $f --out out/$f > /dev/null; done
for f in c01 c02 c03 c05 c18 c19; do $V drive $f --out out/$f --terms /tmp/cov/terms.ndjson > /dev/null; done
$V replay partitions --out out/rp --scen part.ndjson --pair-stride 40 > /dev/null
$V replay builder --out out/rb --scen builder.ndjson > /dev/null
$V replay dfa --out out/rd --scen dfa.ndjson > /dev/null
$V drive hopcroft --out out/hop --scen dfa.ndjson > /dev/null
$V replay manager --out out/rm --scen manager.ndjson > /dev/null
$V replay components --out out/rc --scen comp.ndjson > /dev/null
$B/llvm-profdata merge -sparse prof/*.profraw -o vh.profdata
$B/llvm-cov report $V -instr-profile=vh.profdata --ignore-filename-regex='(registry|rustc|tmp/cov|rustup)' | awk 'NR>2 {printf "%-40s lines %s missed of %s (%s)\n", $1, $9, $8, $10}'
if [ -n "$1" ]; then $B/llvm-cov show $V -instr-profile=vh.profdata /repo/src/$1 | grep -E "^\s+[0-9]+\|\s+0\|"; fi
cd /; rm -rf /tmp/cov

#!/bin/bash
# quick tier of every check under several seeds (false-alarm / flakiness hunt)
export VERIF_REPO=${VP_RUN_REPO:-/repo}
for seed in "$@"; do
  for p in C01 C02 C03 C04 C05 C06 C07 C08 C09 C10 C11 C12 C13 C14 C15 C16 C17 C18 C19 C20; do
    s=$(date +%s)
    VERIF_SEED=$seed bin/check $p > seed_${seed}_$p.log 2>&1; rc=$?
    echo "seed=$seed $p rc=$rc $(( $(date +%s) - s ))s $(grep -c '^VIOLATION' seed_${seed}_$p.log) viol; $(grep 'TOOL-ERROR' seed_${seed}_$p.log | head -1 | cut -c1-200)"
  done
done

#!/bin/bash
# usage: confirm_seeded.sh <outdir with patch.diff + demo.rs> <scratch worktree>
# Confirms in a scratch worktree (outside /repo and /verif): unit tests pass with the change, the demo fails
# with it and passes without it.  Prints one JSON line.
set -u
OUT=$1; WT=$2
cd "$WT" || exit 2
git checkout -q -- . ; git clean -fdq tests 2>/dev/null
mkdir -p tests; cp "$OUT/demo.rs" tests/demo.rs
base_demo=$(cargo test --offline --test demo 2>&1 | grep -c "test result: ok")
git apply "$OUT/patch.diff" || { echo '{"apply":false}'; exit 2; }
unit=$(cargo test --offline --lib 2>&1 | grep "test result" | head -1)
mut_demo=$(cargo test --offline --test demo 2>&1 | grep -c "test result: FAILED\|panicked\|error")
git checkout -q -- . ; rm -rf tests
echo "{\"unit_with_change\":\"$unit\",\"demo_passes_without\":$base_demo,\"demo_fails_with\":$mut_demo}"

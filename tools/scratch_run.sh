#!/bin/bash
# usage: scratch_run.sh <patch> <check ids...>
# Runs quick checks against a scratch worktree of /repo with <patch> applied, from a snapshot of /verif
# (so neither /repo nor /verif is touched and the main tree can be edited meanwhile).  Everything is removed afterwards.
P=$1; shift
S=/tmp/vsnap_$$; W=/tmp/swt_$$
rsync -a --exclude work --exclude 'harness/target' --exclude .git /verif/ $S/
mkdir -p $S/work
git -C /repo worktree add -q --detach $W HEAD || exit 2
git -C $W apply "$P" || { git -C /repo worktree remove --force $W; rm -rf $S; echo "PATCH DOES NOT APPLY"; exit 2; }
for c in "$@"; do
  out=$(cd $S && VERIF_REPO=$W bin/check $c 2>&1); rc=$?
  echo "  $c rc=$rc viol=$(echo "$out" | grep -c '^VIOLATION') notes=$(echo "$out" | grep -c '^NOTE') $(echo "$out" | grep '^VIOLATION\|^NOTE' | sed 's/.*replay=.*replays\///' | cut -c1-120 | head -4 | tr '\n' '|')"
  [ $rc -eq 2 ] && echo "$out" | tail -5
done
git -C /repo worktree remove --force $W
rm -rf $S

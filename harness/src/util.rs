//! Shared plumbing: seeded PRNG, ndjson writer, block embedding of small-scope characters,
//! panic capture.  No oracle logic lives in the harness: it builds inputs, calls the crate and
//! serialises what came back.
use serde_json::Value;
use std::fs::File;
use std::io::{BufWriter, Write};
use std::panic::{catch_unwind, AssertUnwindSafe};

pub const MAX_CHAR: u32 = 0x2FFFF;

#[derive(Clone)]
pub struct Rng(u64);
impl Rng {
    pub fn new(seed: u64) -> Rng {
        Rng(seed.wrapping_mul(0x9E3779B97F4A7C15) ^ 0xD1B54A32D192ED03)
    }
    pub fn next(&mut self) -> u64 {
        self.0 = self.0.wrapping_add(0x9E3779B97F4A7C15);
        let mut z = self.0;
        z = (z ^ (z >> 30)).wrapping_mul(0xBF58476D1CE4E5B9);
        z = (z ^ (z >> 27)).wrapping_mul(0x94D049BB133111EB);
        z ^ (z >> 31)
    }
    pub fn below(&mut self, n: u64) -> u64 {
        if n == 0 {
            0
        } else {
            self.next() % n
        }
    }
    pub fn range(&mut self, lo: u32, hi: u32) -> u32 {
        lo + self.below((hi - lo + 1) as u64) as u32
    }
    pub fn coin(&mut self, num: u64, den: u64) -> bool {
        self.below(den) < num
    }
    pub fn pick<'a, T>(&mut self, v: &'a [T]) -> &'a T {
        &v[self.below(v.len() as u64) as usize]
    }
    /// a character biased towards boundaries and small neighbourhoods
    pub fn ch(&mut self) -> u32 {
        match self.below(10) {
            0 => 0,
            1 => MAX_CHAR,
            2 => self.range(0, 3),
            3 => self.range(MAX_CHAR - 3, MAX_CHAR),
            4 | 5 => self.range(0x60, 0x68),
            6 => self.range(0xFFFE, 0x10001),
            _ => self.range(0, MAX_CHAR),
        }
    }
}

/// Code points where some narrower character type ends or a Unicode block with special treatment begins: intervals whose
/// END POINTS are both drawn from this list cross or touch every such boundary in every combination.
pub const LANDMARKS: [u32; 22] = [
    0, 1, 0x7F, 0x80, 0xFF, 0x100, 0xD7FF, 0xD800, 0xD801, 0xDBFF, 0xDC00, 0xDFFE, 0xDFFF, 0xE000, 0xFFFD, 0xFFFE, 0xFFFF,
    0x10000, 0x1FFFF, 0x20000, MAX_CHAR - 1, MAX_CHAR,
];

pub struct Out {
    w: BufWriter<File>,
    pub n: usize,
    pub path: String,
}
impl Out {
    pub fn create(dir: &str, name: &str) -> Out {
        std::fs::create_dir_all(dir).expect("create out dir");
        let path = format!("{}/{}", dir, name);
        Out {
            w: BufWriter::new(File::create(&path).expect("create trace file")),
            n: 0,
            path,
        }
    }
    pub fn emit(&mut self, v: Value) {
        serde_json::to_writer(&mut self.w, &v).expect("write");
        self.w.write_all(b"\n").expect("write");
        self.n += 1;
    }
    pub fn finish(mut self) -> usize {
        self.w.flush().expect("flush");
        self.n
    }
}

/// Block embedding (DESIGN 2.4): model character i of 0..m stands for the real block
/// [g(i), g(i+1)-1]; g(0) = 0 and g(m+1) = 0x30000.
#[derive(Clone, Debug)]
pub struct Layout {
    pub g: Vec<u32>, // length m+2
}
impl Layout {
    pub fn new(m: u32, rng: &mut Rng, identity: bool) -> Layout {
        let nb = (m + 1) as usize;
        let mut sizes: Vec<u32> = vec![1; nb];
        if !identity {
            for s in sizes.iter_mut() {
                *s = match rng.below(4) {
                    0 => 1,
                    1 => 2,
                    2 => rng.range(3, 200),
                    _ => 0, // large: filled below
                };
            }
        }
        // the remaining characters are spread over the "large" blocks (at least one)
        if identity {
            sizes[nb - 1] = 0;
        } else if !sizes.iter().any(|&s| s == 0) {
            let k = rng.below(nb as u64) as usize;
            sizes[k] = 0;
        }
        let fixed: u32 = sizes.iter().sum();
        let nlarge = sizes.iter().filter(|&&s| s == 0).count() as u32;
        let rest = MAX_CHAR + 1 - fixed;
        let mut left = rest;
        let mut seen = 0;
        for s in sizes.iter_mut() {
            if *s == 0 {
                seen += 1;
                let share = if seen == nlarge {
                    left
                } else {
                    let avg = rest / nlarge;
                    rng.range(avg / 2, avg)
                };
                *s = share;
                left -= share;
            }
        }
        let mut g = Vec::with_capacity(nb + 1);
        let mut acc = 0u32;
        for s in &sizes {
            g.push(acc);
            acc += s;
        }
        g.push(acc);
        assert_eq!(acc, MAX_CHAR + 1);
        Layout { g }
    }
    /// every block a singleton except one in the middle: 0 and MAX_CHAR are blocks of their own
    pub fn edges(m: u32) -> Layout {
        let nb = (m + 1) as usize;
        let mid = nb / 2;
        let mut g = Vec::with_capacity(nb + 1);
        let mut acc = 0u32;
        for i in 0..nb {
            g.push(acc);
            acc += if i == mid { MAX_CHAR + 1 - (nb as u32 - 1) } else { 1 };
        }
        g.push(acc);
        assert_eq!(acc, MAX_CHAR + 1);
        Layout { g }
    }
    pub fn lo(&self, i: u32) -> u32 {
        self.g[i as usize]
    }
    pub fn hi(&self, i: u32) -> u32 {
        self.g[i as usize + 1] - 1
    }
    /// first, last and one interior character of block i
    pub fn probes(&self, i: u32, rng: &mut Rng) -> Vec<u32> {
        let (a, b) = (self.lo(i), self.hi(i));
        let mut v = vec![a];
        if b > a {
            v.push(b);
        }
        if b > a + 1 {
            v.push(rng.range(a + 1, b - 1));
        }
        v
    }
}

/// Run f, turning a panic into Err(message).  A panic in the code under test is data.
pub fn guarded<T>(f: impl FnOnce() -> T) -> Result<T, String> {
    match catch_unwind(AssertUnwindSafe(f)) {
        Ok(v) => Ok(v),
        Err(e) => {
            let msg = if let Some(s) = e.downcast_ref::<&str>() {
                s.to_string()
            } else if let Some(s) = e.downcast_ref::<String>() {
                s.clone()
            } else {
                "panic".to_string()
            };
            Err(msg)
        }
    }
}

pub fn silence_panics() {
    std::panic::set_hook(Box::new(|_| {}));
}

pub struct Args {
    pub tier: String,
    pub seed: u64,
    pub out: String,
    pub rest: Vec<String>,
}
impl Args {
    pub fn thorough(&self) -> bool {
        self.tier == "thorough"
    }
    /// pick a size by tier
    pub fn sz(&self, quick: usize, thorough: usize) -> usize {
        if self.thorough() {
            thorough
        } else {
            quick
        }
    }
}

//! Construction programs for regular expressions: what the caller asked for, by constructor name.
//! The JSON form of a program is the AST the TLA+ module Regex gives a meaning to; the harness
//! never simplifies or interprets it.
use crate::util::*;
use aws_smt_strings::loop_ranges::LoopRange;
use aws_smt_strings::regular_expressions::{ReManager, RegLan};
use aws_smt_strings::smt_regular_expressions as smt;
use aws_smt_strings::smt_strings::SmtString;
use aws_smt_strings::character_sets::CharSet;
use serde_json::{json, Value};

#[derive(Clone, Debug, PartialEq, Eq, Hash)]
pub enum T {
    None,
    Eps,
    All,
    AllChar,
    SigmaPlus,
    Rng(u32, u32),
    Chr(u32),
    Str(Vec<u32>),
    SmtRange(Vec<u32>, Vec<u32>),
    Cat2(Box<T>, Box<T>),
    CatL(Vec<T>),
    Alt2(Box<T>, Box<T>),
    AltL(Vec<T>),
    And2(Box<T>, Box<T>),
    AndL(Vec<T>),
    Not(Box<T>),
    Diff1(Box<T>, Box<T>),
    DiffL(Box<T>, Vec<T>),
    Star(Box<T>),
    Plus(Box<T>),
    Opt(Box<T>),
    Pow(Box<T>, u32),
    SmtLoop(Box<T>, u32, u32),
    Loop(Box<T>, u32, Option<u32>), // mk_loop with LoopRange::finite / infinite
    /// char_derivative(a, c) used as an operand of further constructions (ReManager surface only)
    Quot(u32, Box<T>),
}

/// The list-form constructors take any IntoIterator: hand the operands over as different kinds of iterators
/// (exact size hint, lower bound 0 with filter, unknown size with from_fn, chained halves).
pub fn listy(xs: Vec<RegLan>) -> Box<dyn Iterator<Item = RegLan>> {
    static CALLS: std::sync::atomic::AtomicUsize = std::sync::atomic::AtomicUsize::new(0);
    let k = CALLS.fetch_add(1, std::sync::atomic::Ordering::Relaxed);
    match k % 4 {
        0 => Box::new(xs.into_iter()),
        1 => Box::new(xs.into_iter().filter(|_| true)),
        2 => {
            let mut it = xs.into_iter();
            Box::new(std::iter::from_fn(move || it.next()))
        }
        _ => {
            let h = xs.len() / 2;
            let (a, b) = (xs[..h].to_vec(), xs[h..].to_vec());
            Box::new(a.into_iter().chain(b.into_iter().filter(|_| true)))
        }
    }
}

fn b(t: &T) -> Box<T> {
    Box::new(t.clone())
}

impl T {
    pub fn json(&self) -> Value {
        let l = |v: &Vec<T>| -> Vec<Value> { v.iter().map(|x| x.json()).collect() };
        match self {
            T::None => json!({"k":"none"}),
            T::Eps => json!({"k":"eps"}),
            T::All => json!({"k":"all"}),
            T::AllChar => json!({"k":"allchar"}),
            T::SigmaPlus => json!({"k":"sigmaplus"}),
            T::Rng(a, b) => json!({"k":"rng","lo":a,"hi":b}),
            T::Chr(c) => json!({"k":"chr","c":c}),
            T::Str(w) => json!({"k":"str","w":w}),
            T::SmtRange(a, b) => json!({"k":"smtrange","s1":a,"s2":b}),
            T::Cat2(a, b) => json!({"k":"cat","xs":[a.json(), b.json()]}),
            T::CatL(v) => json!({"k":"cat","xs":l(v)}),
            T::Alt2(a, b) => json!({"k":"alt","xs":[a.json(), b.json()]}),
            T::AltL(v) => json!({"k":"alt","xs":l(v)}),
            T::And2(a, b) => json!({"k":"and","xs":[a.json(), b.json()]}),
            T::AndL(v) => json!({"k":"and","xs":l(v)}),
            T::Not(a) => json!({"k":"not","a":a.json()}),
            T::Diff1(a, b) => json!({"k":"diff","a":a.json(),"xs":[b.json()]}),
            T::DiffL(a, v) => json!({"k":"diff","a":a.json(),"xs":l(v)}),
            T::Star(a) => json!({"k":"star","a":a.json()}),
            T::Plus(a) => json!({"k":"plus","a":a.json()}),
            T::Opt(a) => json!({"k":"opt","a":a.json()}),
            T::Pow(a, n) => json!({"k":"pow","a":a.json(),"n":n}),
            T::SmtLoop(a, i, j) => json!({"k":"smtloop","a":a.json(),"lo":i,"hi":j}),
            T::Loop(a, i, j) => json!({"k":"loop","a":a.json(),"lo":i,"hi":match j {Some(x)=>*x as i64, None=>-1}}),
            T::Quot(c, a) => json!({"k":"quot","c":c,"a":a.json()}),
        }
    }

    /// does the program use a derivative as an operand (not expressible with the re_* wrappers)?
    pub fn has_quot(&self) -> bool {
        match self {
            T::Quot(..) => true,
            T::Cat2(a, b) | T::Alt2(a, b) | T::And2(a, b) | T::Diff1(a, b) => a.has_quot() || b.has_quot(),
            T::CatL(v) | T::AltL(v) | T::AndL(v) => v.iter().any(|x| x.has_quot()),
            T::DiffL(a, v) => a.has_quot() || v.iter().any(|x| x.has_quot()),
            T::Not(a) | T::Star(a) | T::Plus(a) | T::Opt(a) | T::Pow(a, _) | T::SmtLoop(a, _, _) | T::Loop(a, _, _) => a.has_quot(),
            _ => false,
        }
    }

    /// immediate operands
    pub fn children(&self) -> Vec<&T> {
        match self {
            T::Cat2(a, b) | T::Alt2(a, b) | T::And2(a, b) | T::Diff1(a, b) => vec![a, b],
            T::CatL(v) | T::AltL(v) | T::AndL(v) => v.iter().collect(),
            T::DiffL(a, v) => {
                let mut r: Vec<&T> = vec![a];
                r.extend(v.iter());
                r
            }
            T::Not(a) | T::Star(a) | T::Plus(a) | T::Opt(a) | T::Pow(a, _) | T::SmtLoop(a, _, _) | T::Loop(a, _, _) | T::Quot(_, a) => vec![a],
            _ => vec![],
        }
    }

    /// the constructor name used at the root (for branch statistics)
    pub fn op(&self) -> &'static str {
        match self {
            T::None => "none",
            T::Eps => "eps",
            T::All => "all",
            T::AllChar => "allchar",
            T::SigmaPlus => "sigmaplus",
            T::Rng(..) => "rng",
            T::Chr(..) => "chr",
            T::Str(..) => "str",
            T::SmtRange(..) => "smtrange",
            T::Cat2(..) => "concat",
            T::CatL(..) => "concat_list",
            T::Alt2(..) => "union",
            T::AltL(..) => "union_list",
            T::And2(..) => "inter",
            T::AndL(..) => "inter_list",
            T::Not(..) => "complement",
            T::Diff1(..) => "diff",
            T::DiffL(..) => "diff_list",
            T::Star(..) => "star",
            T::Plus(..) => "plus",
            T::Opt(..) => "opt",
            T::Pow(..) => "exp",
            T::SmtLoop(..) => "smt_loop",
            T::Loop(..) => "mk_loop",
            T::Quot(..) => "char_derivative",
        }
    }

    pub fn depth(&self) -> usize {
        match self {
            T::Cat2(a, b) | T::Alt2(a, b) | T::And2(a, b) | T::Diff1(a, b) => 1 + a.depth().max(b.depth()),
            T::CatL(v) | T::AltL(v) | T::AndL(v) => 1 + v.iter().map(|x| x.depth()).max().unwrap_or(0),
            T::DiffL(a, v) => 1 + a.depth().max(v.iter().map(|x| x.depth()).max().unwrap_or(0)),
            T::Not(a) | T::Star(a) | T::Plus(a) | T::Opt(a) | T::Pow(a, _) | T::SmtLoop(a, _, _) | T::Loop(a, _, _) | T::Quot(_, a) => {
                1 + a.depth()
            }
            _ => 0,
        }
    }

    /// Heuristic size of the specification's residual automaton for this program (nested loops
    /// multiply: the residual state of a loop is a set of (counter, body state) pairs).  Only
    /// used to decide which cases are explored exhaustively in product and which are checked on
    /// bounded words only; it never influences a verdict.
    pub fn cost(&self) -> u64 {
        let sum = |v: &Vec<T>| -> u64 { v.iter().map(|x| x.cost()).sum::<u64>() + 1 };
        match self {
            T::Str(w) => 1 + w.len() as u64,
            T::Cat2(a, b) | T::Alt2(a, b) | T::And2(a, b) | T::Diff1(a, b) => 1 + a.cost() + b.cost(),
            T::CatL(v) | T::AltL(v) | T::AndL(v) => sum(v),
            T::DiffL(a, v) => a.cost() + sum(v),
            T::Not(a) | T::Quot(_, a) => a.cost(),
            T::Star(a) | T::Plus(a) | T::Opt(a) => 2 * a.cost(),
            T::Pow(a, n) => (*n as u64 + 1) * a.cost(),
            T::SmtLoop(a, _, j) => (*j as u64 + 1) * a.cost(),
            T::Loop(a, i, j) => (match j { Some(j) => *j as u64, None => *i as u64 } + 1) * a.cost().max(1) + if a.has_loop() { 20 } else { 0 },
            _ => 1,
        }
    }
    pub fn has_loop(&self) -> bool {
        match self {
            T::Star(_) | T::Plus(_) | T::Opt(_) | T::Pow(..) | T::SmtLoop(..) | T::Loop(..) | T::All | T::SigmaPlus => true,
            T::Cat2(a, b) | T::Alt2(a, b) | T::And2(a, b) | T::Diff1(a, b) => a.has_loop() || b.has_loop(),
            T::CatL(v) | T::AltL(v) | T::AndL(v) => v.iter().any(|x| x.has_loop()),
            T::DiffL(a, v) => a.has_loop() || v.iter().any(|x| x.has_loop()),
            T::Not(a) | T::Quot(_, a) => a.has_loop(),
            _ => false,
        }
    }

    /// interval end points mentioned by the program (lo and hi+1): inputs of the call, hence
    /// part of the region representatives
    pub fn ends(&self, out: &mut Vec<u32>) {
        match self {
            T::Rng(a, b) => {
                out.push(*a);
                out.push(*b + 1);
            }
            T::Chr(c) => {
                out.push(*c);
                out.push(*c + 1);
            }
            T::Str(w) => {
                for c in w {
                    out.push(*c);
                    out.push(*c + 1);
                }
            }
            T::SmtRange(a, b) => {
                for c in a.iter().chain(b.iter()) {
                    out.push(*c);
                    out.push(*c + 1);
                }
            }
            T::Cat2(a, b) | T::Alt2(a, b) | T::And2(a, b) | T::Diff1(a, b) => {
                a.ends(out);
                b.ends(out);
            }
            T::CatL(v) | T::AltL(v) | T::AndL(v) => v.iter().for_each(|x| x.ends(out)),
            T::DiffL(a, v) => {
                a.ends(out);
                v.iter().for_each(|x| x.ends(out));
            }
            T::Not(a) | T::Star(a) | T::Plus(a) | T::Opt(a) | T::Pow(a, _) | T::SmtLoop(a, _, _) | T::Loop(a, _, _) => {
                a.ends(out)
            }
            T::Quot(c, a) => {
                out.push(*c);
                out.push(*c + 1);
                a.ends(out)
            }
            _ => {}
        }
    }

    /// Build through ReManager methods
    pub fn build(&self, m: &mut ReManager) -> RegLan {
        match self {
            T::None => m.empty(),
            T::Eps => m.epsilon(),
            T::All => m.full(),
            T::AllChar => m.all_chars(),
            T::SigmaPlus => m.sigma_plus(),
            T::Rng(a, b) => {
                // two public routes to a range
                if (a ^ b) & 1 == 0 {
                    m.range(*a, *b)
                } else {
                    m.char_set(CharSet::range(*a, *b))
                }
            }
            T::Chr(c) => m.char(*c),
            T::Str(w) => m.str(&SmtString::from(w.clone())),
            T::SmtRange(a, b) => m.smt_range(&SmtString::from(a.clone()), &SmtString::from(b.clone())),
            T::Cat2(a, b) => {
                let (x, y) = (a.build(m), b.build(m));
                m.concat(x, y)
            }
            T::CatL(v) => {
                let xs: Vec<RegLan> = v.iter().map(|x| x.build(m)).collect();
                m.concat_list(listy(xs))
            }
            T::Alt2(a, b) => {
                let (x, y) = (a.build(m), b.build(m));
                m.union(x, y)
            }
            T::AltL(v) => {
                let xs: Vec<RegLan> = v.iter().map(|x| x.build(m)).collect();
                m.union_list(listy(xs))
            }
            T::And2(a, b) => {
                let (x, y) = (a.build(m), b.build(m));
                m.inter(x, y)
            }
            T::AndL(v) => {
                let xs: Vec<RegLan> = v.iter().map(|x| x.build(m)).collect();
                m.inter_list(listy(xs))
            }
            T::Not(a) => {
                let x = a.build(m);
                m.complement(x)
            }
            T::Diff1(a, b) => {
                let (x, y) = (a.build(m), b.build(m));
                m.diff(x, y)
            }
            T::DiffL(a, v) => {
                let x = a.build(m);
                let xs: Vec<RegLan> = v.iter().map(|x| x.build(m)).collect();
                m.diff_list(x, listy(xs))
            }
            T::Star(a) => {
                let x = a.build(m);
                m.star(x)
            }
            T::Plus(a) => {
                let x = a.build(m);
                m.plus(x)
            }
            T::Opt(a) => {
                let x = a.build(m);
                m.opt(x)
            }
            T::Pow(a, n) => {
                let x = a.build(m);
                m.exp(x, *n)
            }
            T::SmtLoop(a, i, j) => {
                let x = a.build(m);
                m.smt_loop(x, *i, *j)
            }
            T::Loop(a, i, j) => {
                let x = a.build(m);
                let r = match j {
                    Some(j) => LoopRange::finite(*i, *j),
                    None => LoopRange::infinite(*i),
                };
                m.mk_loop(x, r)
            }
            T::Quot(c, a) => {
                let x = a.build(m);
                m.char_derivative(x, *c)
            }
        }
    }

    /// The same construction expressed with the SMT-LIB-named wrappers only (they have no
    /// sigma_plus, no general range and no unbounded mk_loop): returns the program actually run.
    pub fn smt_form(&self) -> T {
        let f = |x: &T| Box::new(x.smt_form());
        let l = |v: &Vec<T>| -> Vec<T> { v.iter().map(|x| x.smt_form()).collect() };
        match self {
            T::SigmaPlus => T::Plus(Box::new(T::AllChar)),
            T::Rng(a, b) => T::SmtRange(vec![*a], vec![*b]),
            T::Chr(c) => T::Str(vec![*c]),
            T::Loop(a, i, Some(j)) => T::SmtLoop(f(a), *i, *j),
            T::Loop(a, 0, None) => T::Star(f(a)),
            T::Loop(a, 1, None) => T::Plus(f(a)),
            T::Loop(a, n, None) => T::Cat2(Box::new(T::Pow(f(a), *n)), Box::new(T::Star(f(a)))),
            T::Cat2(a, b) => T::Cat2(f(a), f(b)),
            T::CatL(v) => T::CatL(l(v)),
            T::Alt2(a, b) => T::Alt2(f(a), f(b)),
            T::AltL(v) => T::AltL(l(v)),
            T::And2(a, b) => T::And2(f(a), f(b)),
            T::AndL(v) => T::AndL(l(v)),
            T::Not(a) => T::Not(f(a)),
            T::Diff1(a, b) => T::Diff1(f(a), f(b)),
            T::DiffL(a, v) => T::DiffL(f(a), l(v)),
            T::Star(a) => T::Star(f(a)),
            T::Plus(a) => T::Plus(f(a)),
            T::Opt(a) => T::Opt(f(a)),
            T::Pow(a, n) => T::Pow(f(a), *n),
            T::SmtLoop(a, i, j) => T::SmtLoop(f(a), *i, *j),
            T::Quot(c, a) => T::Quot(*c, f(a)),
            other => other.clone(),
        }
    }

    /// Build through the SMT-LIB-named wrappers (thread-local manager).  self must be an smt_form.
    pub fn build_smt(&self) -> RegLan {
        match self {
            T::None => smt::re_none(),
            T::Eps => smt::str_to_re(&SmtString::from(Vec::<u32>::new())),
            T::All => smt::re_all(),
            T::AllChar => smt::re_allchar(),
            T::Str(w) => smt::str_to_re(&SmtString::from(w.clone())),
            T::SmtRange(a, b) => smt::re_range(&SmtString::from(a.clone()), &SmtString::from(b.clone())),
            T::Cat2(a, b) => smt::re_concat(a.build_smt(), b.build_smt()),
            T::CatL(v) => {
                let xs: Vec<RegLan> = v.iter().map(|x| x.build_smt()).collect();
                smt::re_concat_list(listy(xs))
            }
            T::Alt2(a, b) => smt::re_union(a.build_smt(), b.build_smt()),
            T::AltL(v) => {
                let xs: Vec<RegLan> = v.iter().map(|x| x.build_smt()).collect();
                smt::re_union_list(listy(xs))
            }
            T::And2(a, b) => smt::re_inter(a.build_smt(), b.build_smt()),
            T::AndL(v) => {
                let xs: Vec<RegLan> = v.iter().map(|x| x.build_smt()).collect();
                smt::re_inter_list(listy(xs))
            }
            T::Not(a) => smt::re_comp(a.build_smt()),
            T::Diff1(a, b) => smt::re_diff(a.build_smt(), b.build_smt()),
            T::DiffL(a, v) => {
                let x = a.build_smt();
                let xs: Vec<RegLan> = v.iter().map(|x| x.build_smt()).collect();
                smt::re_diff_list(x, listy(xs))
            }
            T::Star(a) => smt::re_star(a.build_smt()),
            T::Plus(a) => smt::re_plus(a.build_smt()),
            T::Opt(a) => smt::re_opt(a.build_smt()),
            T::Pow(a, n) => smt::re_power(a.build_smt(), *n),
            T::SmtLoop(a, i, j) => smt::re_loop(a.build_smt(), *i, *j),
            other => panic!("harness: {:?} is not an smt_form", other),
        }
    }
}

// ------------------------------------------------------------------------------------------
// Generators

/// The small-scope atom pool: a,b,c adjacent characters, with ranges that overlap, touch and
/// reach both ends of the alphabet.
pub struct Pool {
    pub a: u32,
    pub b: u32,
    pub c: u32,
}
impl Pool {
    pub fn new(rng: &mut Rng, fixed: bool) -> Pool {
        if fixed {
            return Pool { a: 97, b: 98, c: 99 };
        }
        // the three letters straddle a boundary of some narrower character type, or are random
        let a = match rng.below(9) {
            0 => 0,
            1 => MAX_CHAR - 2,
            2 => 0xFFFE,
            3 => 0x7E,   // 0x7E 0x7F 0x80
            4 => 0xFE,   // 0xFE 0xFF 0x100
            5 => 0xD7FE, // .. 0xD7FF 0xD800
            6 => 0xDFFE, // .. 0xDFFF 0xE000
            _ => rng.range(1, MAX_CHAR - 3),
        };
        Pool { a, b: a + 1, c: a + 2 }
    }
    pub fn atoms(&self) -> Vec<T> {
        vec![
            T::None,
            T::Eps,
            T::Chr(self.a),
            T::Chr(self.b),
            T::Rng(self.a, self.b),
            T::Rng(self.b, self.c),
            T::AllChar,
            T::All,
            T::Str(vec![self.a, self.b]),
        ]
    }
    pub fn more_atoms(&self) -> Vec<T> {
        let mut v = self.atoms();
        v.push(T::Rng(0, self.a));
        v.push(T::Rng(self.c, MAX_CHAR));
        // all characters but one, and the two end characters on their own
        v.push(T::Rng(1, MAX_CHAR));
        v.push(T::Rng(0, MAX_CHAR - 1));
        v.push(T::Chr(0));
        v.push(T::Chr(MAX_CHAR));
        v.push(T::SigmaPlus);
        v.push(T::SmtRange(vec![self.a], vec![self.c]));
        v.push(T::SmtRange(vec![self.c], vec![self.a]));
        v.push(T::SmtRange(vec![self.a, self.a], vec![self.c]));
        v.push(T::Str(vec![]));
        v.push(T::Str(vec![self.a]));
        v.push(T::Str(vec![self.b, self.a, self.b]));
        v
    }
    pub fn letters(&self) -> Vec<u32> {
        vec![self.a, self.b, self.c]
    }
}

pub const LOOP_RANGES: [(u32, Option<u32>); 10] = [
    (0, Some(0)),
    (0, Some(1)),
    (1, Some(1)),
    (0, Some(2)),
    (1, Some(2)),
    (2, Some(2)),
    (2, Some(3)),
    (0, None),
    (1, None),
    (2, None),
];

/// every unary construction over x
pub fn unary_over(x: &T) -> Vec<T> {
    let mut v = vec![T::Not(b(x)), T::Star(b(x)), T::Plus(b(x)), T::Opt(b(x))];
    for n in 0..=3 {
        v.push(T::Pow(b(x), n));
    }
    for (lo, hi) in LOOP_RANGES.iter() {
        v.push(T::Loop(b(x), *lo, *hi));
    }
    v.push(T::SmtLoop(b(x), 1, 3));
    v.push(T::SmtLoop(b(x), 2, 1)); // i > j: none
    v
}

/// every binary construction over (x, y)
pub fn binary_over(x: &T, y: &T) -> Vec<T> {
    vec![
        T::Cat2(b(x), b(y)),
        T::Alt2(b(x), b(y)),
        T::And2(b(x), b(y)),
        T::Diff1(b(x), b(y)),
    ]
}

pub fn list_over(x: &T, y: &T, z: &T) -> Vec<T> {
    let v = vec![x.clone(), y.clone(), z.clone()];
    vec![
        T::CatL(v.clone()),
        T::AltL(v.clone()),
        T::AndL(v.clone()),
        T::DiffL(b(x), vec![y.clone(), z.clone()]),
    ]
}

/// All programs of depth <= 1 over the atoms
pub fn depth1(atoms: &[T]) -> Vec<T> {
    let mut v: Vec<T> = atoms.to_vec();
    for x in atoms {
        v.extend(unary_over(x));
        for y in atoms {
            v.extend(binary_over(x, y));
        }
    }
    v.push(T::CatL(vec![]));
    v.push(T::AltL(vec![]));
    v.push(T::AndL(vec![]));
    v
}

/// Programs of depth exactly 2 (operators over depth-<=1 operands with at least one depth-1
/// operand); `stride`/`offset` select a stratified sample (stride 1 = all).
pub fn depth2(atoms: &[T], stride: usize, offset: usize, with_lists: bool) -> Vec<T> {
    let d1 = depth1(atoms);
    let natoms = atoms.len();
    let mut out = vec![];
    let mut k = 0usize;
    let mut take = |t: T, out: &mut Vec<T>| {
        if k % stride == offset % stride {
            out.push(t);
        }
        k += 1;
    };
    for (i, x) in d1.iter().enumerate() {
        if i >= natoms {
            for t in unary_over(x) {
                take(t, &mut out);
            }
        }
        for (j, y) in d1.iter().enumerate() {
            if i >= natoms || j >= natoms {
                for t in binary_over(x, y) {
                    take(t, &mut out);
                }
            }
        }
    }
    if with_lists {
        // n-ary list constructors with three operands: two atoms and one depth-1 term
        for x in atoms {
            for y in atoms {
                for (j, z) in d1.iter().enumerate() {
                    if j >= natoms && j % 7 == 0 {
                        for t in list_over(x, z, y) {
                            take(t, &mut out);
                        }
                    }
                }
            }
        }
    }
    out
}

/// A random program of depth <= d over real code points
pub fn random_term(rng: &mut Rng, d: usize, pool: &Pool) -> T {
    if d == 0 || rng.coin(1, 6) {
        return match rng.below(14) {
            0 => T::None,
            1 => T::Eps,
            2 => T::All,
            3 => T::AllChar,
            4 => T::SigmaPlus,
            5 => {
                let (p, q) = (rng.ch(), rng.ch());
                T::Rng(p.min(q), p.max(q))
            }
            6 | 7 => T::Chr(*rng.pick(&pool.letters())),
            8 => T::Rng(pool.a, pool.b),
            9 => T::Rng(pool.b, pool.c),
            10 => {
                let n = rng.below(4) as usize;
                T::Str((0..n).map(|_| *rng.pick(&pool.letters())).collect())
            }
            11 => T::Chr(rng.ch()),
            12 => T::Rng(0, pool.b),
            _ => T::Rng(pool.b, MAX_CHAR),
        };
    }
    let sub = |rng: &mut Rng| Box::new(random_term(rng, d - 1, pool));
    match rng.below(20) {
        0 | 1 => T::Cat2(sub(rng), sub(rng)),
        2 | 3 => T::Alt2(sub(rng), sub(rng)),
        4 | 5 => T::And2(sub(rng), sub(rng)),
        6 | 7 => T::Not(sub(rng)),
        8 => T::Diff1(sub(rng), sub(rng)),
        9 => T::Star(sub(rng)),
        10 => T::Plus(sub(rng)),
        11 => T::Opt(sub(rng)),
        12 => T::Pow(sub(rng), rng.range(0, 4)),
        13 => {
            let i = rng.range(0, 4);
            T::SmtLoop(sub(rng), i, i + rng.range(0, 3))
        }
        14 => {
            if rng.coin(1, 3) {
                return T::Quot(*rng.pick(&pool.letters()), sub(rng));
            }
            let i = rng.range(0, 3);
            let j = if rng.coin(1, 2) { None } else { Some(i + rng.range(0, 3)) };
            T::Loop(sub(rng), i, j)
        }
        15 => {
            let n = rng.range(0, 3) as usize;
            T::CatL((0..n).map(|_| random_term(rng, d - 1, pool)).collect())
        }
        16 => {
            let n = rng.range(0, 3) as usize;
            T::AltL((0..n).map(|_| random_term(rng, d - 1, pool)).collect())
        }
        17 => {
            let n = rng.range(0, 3) as usize;
            T::AndL((0..n).map(|_| random_term(rng, d - 1, pool)).collect())
        }
        18 => {
            let n = rng.range(0, 2) as usize;
            T::DiffL(sub(rng), (0..n).map(|_| random_term(rng, d - 1, pool)).collect())
        }
        _ => {
            // loop of a loop: the flattening rule of mk_loop
            let i = rng.range(0, 3);
            let inner = T::Loop(sub(rng), i, if rng.coin(1, 3) { None } else { Some(i + rng.range(0, 2)) });
            let k = rng.range(0, 3);
            T::Loop(Box::new(inner), k, if rng.coin(1, 3) { None } else { Some(k + rng.range(0, 2)) })
        }
    }
}

/// Expressions that denote a single string, built in different ways (characters, strings, powers
/// and point loops of both, concatenated): the crate tracks a `singleton` flag for them.
pub fn literal_family(pool: &Pool) -> Vec<T> {
    let pieces: Vec<T> = vec![
        T::Chr(pool.a), T::Chr(pool.b), T::Str(vec![pool.a, pool.b]), T::Str(vec![pool.b, pool.a]),
        T::Pow(b(&T::Chr(pool.a)), 2), T::Pow(b(&T::Str(vec![pool.a, pool.b])), 2), T::Pow(b(&T::Str(vec![pool.a, pool.b])), 3),
        T::Loop(b(&T::Str(vec![pool.b, pool.a])), 2, Some(2)), T::Pow(b(&T::Chr(pool.b)), 3), T::Eps,
    ];
    let mut v: Vec<T> = pieces.clone();
    for x in &pieces {
        for y in &pieces {
            let xy = T::Cat2(b(x), b(y));
            v.push(xy.clone());
            v.push(T::Alt2(b(&xy), b(&T::Pow(b(&T::Chr(pool.c)), 5))));
            v.push(T::Not(b(&xy)));
            for z in pieces.iter().take(4) {
                v.push(T::CatL(vec![x.clone(), y.clone(), z.clone()]));
            }
        }
    }
    v
}

/// A random program in which a few random sub-terms occur several times (the same hash-consed
/// object in several operand positions)
pub fn random_shared_term(rng: &mut Rng, pool: &Pool) -> T {
    let shared: Vec<T> = (0..rng.range(1, 3)).map(|_| random_term(rng, 2, pool)).collect();
    fn go(rng: &mut Rng, d: usize, shared: &[T], pool: &Pool) -> T {
        if d == 0 || rng.coin(1, 4) {
            return if rng.coin(2, 3) { rng.pick(shared).clone() } else { random_term(rng, 0, pool) };
        }
        let sub = |rng: &mut Rng| Box::new(go(rng, d - 1, shared, pool));
        match rng.below(12) {
            0 | 1 => T::Cat2(sub(rng), sub(rng)),
            2 | 3 => T::Alt2(sub(rng), sub(rng)),
            4 | 5 => T::And2(sub(rng), sub(rng)),
            6 => T::Diff1(sub(rng), sub(rng)),
            7 => T::Not(sub(rng)),
            8 => {
                let i = rng.range(0, 3);
                T::Loop(sub(rng), i, if rng.coin(1, 3) { None } else { Some(i + rng.range(0, 2)) })
            }
            9 => T::Pow(sub(rng), rng.range(2, 3)),
            10 => T::AndL(vec![go(rng, d - 1, shared, pool), go(rng, d - 1, shared, pool), go(rng, d - 1, shared, pool)]),
            _ => T::AltL(vec![go(rng, d - 1, shared, pool), go(rng, d - 1, shared, pool), go(rng, d - 1, shared, pool)]),
        }
    }
    go(rng, 3, &shared, pool)
}

/// Operands that share a compound sub-term: f(R) op g(R) with f, g loops over the same body R (the
/// hash-consed body is the very same object in both operands, which is what rules about "the same
/// body" key on), R ambiguous in its number of repetitions.
/// Concatenations that share a head (or a tail) of VARIABLE length, combined by intersection / difference / union:
/// concatenation distributes over union only - the shared part may consume different amounts in the operands.
pub fn common_factor_family(pool: &Pool) -> Vec<T> {
    let (a, bb) = (T::Chr(pool.a), T::Chr(pool.b));
    let ab = T::Str(vec![pool.a, pool.b]);
    let shared: Vec<T> = vec![
        T::Plus(b(&a)), T::Loop(b(&a), 1, Some(2)), T::Alt2(b(&a), b(&ab)), T::Cat2(b(&a), Box::new(T::Opt(b(&a)))),
        T::Plus(Box::new(T::Rng(pool.a, pool.b))), T::Star(b(&a)), T::Str(vec![pool.a, pool.a]),
    ];
    let rest: Vec<T> = vec![
        bb.clone(), T::Cat2(b(&T::AllChar), b(&bb)), ab.clone(), T::Cat2(b(&T::All), b(&bb)),
        T::Alt2(b(&a), b(&bb)), T::Cat2(b(&a), b(&bb)),
    ];
    let mut v = vec![];
    for h in &shared {
        for (i, s1) in rest.iter().enumerate() {
            for s2 in rest.iter().skip(i + 1) {
                let (x, y) = (T::Cat2(b(h), b(s1)), T::Cat2(b(h), b(s2)));
                v.push(T::And2(b(&x), b(&y)));
                v.push(T::Diff1(b(&x), b(&y)));
                let (x2, y2) = (T::Cat2(b(s1), b(h)), T::Cat2(b(s2), b(h)));
                v.push(T::And2(b(&x2), b(&y2)));
                if i == 0 {
                    v.push(T::AndL(vec![x.clone(), y.clone(), T::Cat2(b(h), b(&T::All))]));
                    v.push(T::Cat2(b(&bb), Box::new(T::And2(b(&x), b(&y)))));
                }
            }
        }
    }
    v
}

pub fn shared_subterm_family(pool: &Pool) -> Vec<T> {
    let (a, bb) = (T::Chr(pool.a), T::Chr(pool.b));
    let bodies: Vec<T> = vec![
        T::Alt2(b(&a), b(&T::Str(vec![pool.a, pool.a]))),
        T::Cat2(b(&a), b(&T::All)),
        T::AltL(vec![a.clone(), bb.clone(), T::Str(vec![pool.a, pool.b])]),
        T::Str(vec![pool.a, pool.b]),
        T::Rng(pool.a, pool.b),
        T::Cat2(b(&T::Opt(b(&a))), b(&bb)),
    ];
    let ranges: [(u32, Option<u32>); 8] =
        [(2, Some(2)), (3, Some(3)), (1, Some(2)), (2, Some(3)), (0, Some(1)), (2, None), (3, None), (0, None)];
    let mut v = vec![];
    for r in &bodies {
        for (k, &(i1, j1)) in ranges.iter().enumerate() {
            for &(i2, j2) in ranges[k..].iter() {
                let (x, y) = (T::Loop(b(r), i1, j1), T::Loop(b(r), i2, j2));
                v.push(T::And2(b(&x), b(&y)));
                v.push(T::Diff1(b(&x), b(&y)));
                v.push(T::Diff1(b(&y), b(&x)));
                v.push(T::Alt2(b(&x), b(&y)));
                v.push(T::AndL(vec![y.clone(), T::All, x.clone()]));
            }
        }
    }
    v
}

/// Derivatives used as operands of further constructions: a caller may feed what char_derivative
/// returned to any constructor; the result must denote the construction over the left quotient.
pub fn quotient_family(pool: &Pool) -> Vec<T> {
    let (a, bb) = (T::Chr(pool.a), T::Chr(pool.b));
    let bases: Vec<T> = vec![
        T::Str(vec![pool.a, pool.b]), T::Star(b(&T::Rng(pool.a, pool.b))), T::Cat2(b(&T::Opt(b(&a))), b(&bb)),
        T::Alt2(b(&T::Str(vec![pool.a, pool.a])), b(&T::Str(vec![pool.a, pool.b]))), T::Loop(b(&a), 2, Some(3)),
        T::Not(b(&T::Str(vec![pool.a]))), T::And2(b(&T::Plus(b(&a))), b(&T::Not(b(&T::Pow(b(&a), 2))))),
        T::Cat2(b(&T::All), b(&a)), T::Loop(b(&T::Loop(b(&a), 1, Some(2))), 2, None), T::AllChar,
    ];
    let mut v = vec![];
    for x in &bases {
        for &c in &[pool.a, pool.b, pool.c] {
            let q = T::Quot(c, b(x));
            v.push(q.clone());
            v.push(T::Alt2(b(&q), b(&bb)));
            v.push(T::Cat2(b(&q), b(x)));
            v.push(T::Cat2(b(x), b(&q)));
            v.push(T::And2(b(&q), b(&T::Not(b(x)))));
            v.push(T::Not(b(&q)));
            v.push(T::Star(b(&q)));
            v.push(T::Loop(b(&q), 1, Some(2)));
            v.push(T::Quot(pool.b, b(&T::Cat2(b(&q), b(&bb)))));
            v.push(T::Alt2(b(&q), b(&T::Not(b(&q)))));
            v.push(T::Diff1(b(x), b(&T::Cat2(b(&T::Chr(c)), b(&q)))));
        }
    }
    v
}

/// Loops of loops: the flattening rule (R^[a,b])^[c,d] -> R^[ac,bd] is only sound when the
/// product of the ranges is exact; inner and outer ranges cover the gap criterion's cases.
pub fn loop_family(pool: &Pool) -> Vec<T> {
    let bodies = vec![T::Chr(pool.a), T::Rng(pool.a, pool.b), T::Str(vec![pool.a, pool.b]), T::Opt(b(&T::Chr(pool.a)))];
    let inner: Vec<(u32, Option<u32>)> = vec![
        (0, Some(1)), (1, Some(2)), (2, Some(2)), (2, Some(3)), (3, Some(3)), (3, Some(4)), (4, Some(6)), (5, Some(7)),
        (0, None), (1, None), (2, None), (3, None),
    ];
    let outer: Vec<(u32, Option<u32>)> = vec![
        (0, Some(1)), (0, Some(2)), (1, Some(2)), (2, Some(2)), (2, Some(3)), (1, Some(3)), (3, Some(4)),
        (0, None), (1, None), (2, None), (3, None),
    ];
    let mut v = vec![];
    for (bi, body) in bodies.iter().enumerate() {
        for &(i, j) in &inner {
            for &(k, l) in &outer {
                // the heavier bodies only with the smaller ranges
                if bi >= 2 && (i > 3 || k > 2) {
                    continue;
                }
                v.push(T::Loop(Box::new(T::Loop(b(body), i, j)), k, l));
            }
        }
    }
    // a loop over R next to a NESTED loop over the same R that mk_loop cannot flatten (and next to one it can), in
    // both orders: the loop-merging rules of concat must not look through the nesting
    {
        let simple: Vec<(u32, Option<u32>)> = vec![(0, None), (1, None), (2, None), (1, Some(2)), (0, Some(1)), (2, Some(2))];
        let nested: Vec<((u32, Option<u32>), (u32, Option<u32>))> = vec![
            ((2, Some(2)), (1, None)), ((2, Some(2)), (0, None)), ((3, Some(3)), (1, Some(2))), ((2, Some(3)), (1, Some(2))),
            ((2, None), (0, None)), ((2, Some(2)), (2, Some(2))), ((3, Some(4)), (2, None)),
        ];
        for body in bodies.iter().take(3) {
            for &(i, j) in &simple {
                for &((a1, b1), (c1, d1)) in &nested {
                    let x = T::Loop(b(body), i, j);
                    let y = T::Loop(Box::new(T::Loop(b(body), a1, b1)), c1, d1);
                    v.push(T::Cat2(b(&x), b(&y)));
                    v.push(T::Cat2(b(&y), b(&x)));
                }
            }
            for &((a1, b1), (c1, d1)) in &nested {
                let y = T::Loop(Box::new(T::Loop(b(body), a1, b1)), c1, d1);
                v.push(T::Cat2(b(body), b(&y)));
                v.push(T::Cat2(b(&y), b(body)));
                v.push(T::Cat2(b(&y), b(&y)));
            }
        }
    }
    // three levels of nesting (the flattening of a loop of a loop is decided pair by pair), and loops merged by
    // concat's R.R^[i,j] rule next to an outer loop
    {
        let inner: Vec<(u32, Option<u32>)> = vec![(2, Some(3)), (3, Some(4)), (2, Some(2))];
        let mid: Vec<(u32, Option<u32>)> = vec![(1, None), (0, None), (1, Some(2)), (2, Some(2))];
        let outer: Vec<(u32, Option<u32>)> = vec![(2, Some(2)), (1, Some(2)), (2, None), (0, Some(1))];
        for body in bodies.iter().take(2) {
            for &(i, j) in &inner {
                for &(k, l) in &mid {
                    for &(m, n) in &outer {
                        v.push(T::Loop(Box::new(T::Loop(Box::new(T::Loop(b(body), i, j)), k, l)), m, n));
                    }
                }
                let l1 = T::Loop(b(body), i, j);
                v.push(T::Pow(Box::new(T::Cat2(b(&l1), Box::new(T::Opt(b(&l1))))), 2));
                v.push(T::Loop(Box::new(T::Cat2(b(&l1), Box::new(T::Star(b(&l1))))), 1, Some(2)));
                v.push(T::Pow(Box::new(T::Cat2(Box::new(T::Opt(b(&l1))), b(&l1))), 2));
            }
        }
    }
    // through the SMT-LIB-named constructors as well
    let a = T::Chr(pool.a);
    for n in 2..=4u32 {
        for (lo, hi) in [(2u32, 3u32), (1, 2), (2, 4), (3, 3)] {
            v.push(T::SmtLoop(Box::new(T::Pow(b(&a), n)), lo, hi));
            v.push(T::Pow(Box::new(T::SmtLoop(b(&a), lo, hi)), n));
        }
        v.push(T::Star(Box::new(T::Pow(b(&a), n))));
        v.push(T::Plus(Box::new(T::SmtLoop(b(&a), n, n + 1))));
    }
    v
}

/// Unions of terms whose leading ranges are adjacent and start at character 0, created in every
/// order (operand order = creation order = id order): exercises the merged derivative classes
/// and their complement witness.
pub fn adjacent_range_family(pool: &Pool) -> Vec<T> {
    let cuts = [0u32, 48, 58, 65, pool.a.max(66)];
    let mut ranges: Vec<T> = vec![];
    for w in cuts.windows(2) {
        ranges.push(T::Cat2(Box::new(T::Rng(w[0], w[1] - 1)), b(&T::All)));
    }
    ranges.push(T::Cat2(Box::new(T::Rng(cuts[4], MAX_CHAR)), b(&T::All)));
    let n = ranges.len();
    let mut v = vec![];
    // a nullable head over the first range(s) followed by a union over the next adjacent ranges: the classes of
    // the concatenation are merge(classes(head), classes(tail)) with a multi-interval second operand
    let rng = |i: usize| -> T {
        if i + 1 < cuts.len() { T::Rng(cuts[i], cuts[i + 1] - 1) } else { T::Rng(cuts[cuts.len() - 1], MAX_CHAR) }
    };
    let tail_of = |is: &[usize]| -> T {
        let parts: Vec<T> = is.iter().enumerate().map(|(k, &i)| T::Cat2(Box::new(rng(i)), Box::new(T::Chr(120 + k as u32)))).collect();
        if parts.len() == 1 { parts[0].clone() } else { T::AltL(parts) }
    };
    for head_hi in 0..3usize {
        let head_ranges: Vec<T> = (0..=head_hi).map(rng).collect();
        let head_body = if head_ranges.len() == 1 { head_ranges[0].clone() } else { T::AltL(head_ranges) };
        for tail in [vec![head_hi + 1], vec![head_hi + 1, head_hi + 2], vec![head_hi + 2, head_hi + 1], vec![head_hi + 2]] {
            if tail.iter().any(|&i| i >= n) {
                continue;
            }
            for head in [T::Opt(b(&head_body)), T::Star(b(&head_body)), T::Loop(b(&head_body), 0, Some(2))] {
                let t = T::Cat2(b(&head), b(&tail_of(&tail)));
                v.push(t.clone());
                v.push(T::Not(b(&t)));
                v.push(T::Cat2(b(&t), b(&T::All)));
            }
        }
    }
    // sub-terms whose classes tile the whole alphabet with two or more intervals (no complementary class although
    // the term distinguishes characters), next to siblings with classes of their own
    {
        let x = |k: u32| T::Chr(120 + k);
        let cut = pool.a;
        let lo_r = T::Rng(0, cut);
        let hi_r = T::Rng(cut + 1, MAX_CHAR);
        let hi_o = T::Rng(cut, MAX_CHAR);
        let tiles: Vec<T> = vec![
            T::Cat2(b(&T::Opt(b(&lo_r))), b(&hi_r)),
            T::Cat2(b(&T::Star(b(&lo_r))), b(&hi_o)),
            T::Alt2(b(&T::Cat2(b(&lo_r), b(&x(0)))), b(&T::Cat2(b(&hi_r), b(&x(1))))),
            T::AltL(vec![
                T::Cat2(b(&T::Rng(0, 47)), b(&x(0))),
                T::Cat2(b(&T::Rng(48, cut)), b(&x(1))),
                T::Cat2(b(&hi_r), b(&x(2))),
            ]),
            T::Alt2(b(&T::Cat2(b(&lo_r), b(&T::All))), b(&T::Cat2(b(&hi_r), b(&x(1))))),
        ];
        let sibs: Vec<T> = vec![
            T::Str(vec![pool.c, pool.c]),
            T::Chr(pool.b),
            T::Cat2(b(&T::Rng(pool.b, pool.c)), b(&x(3))),
            T::Cat2(b(&T::All), b(&T::Chr(pool.c))),
        ];
        for t in &tiles {
            v.push(t.clone());
            for s in &sibs {
                v.push(T::Alt2(b(t), b(s)));
                v.push(T::Alt2(b(s), b(t)));
                v.push(T::And2(b(t), b(&T::Not(b(s)))));
                v.push(T::And2(b(&T::Cat2(b(t), b(&T::All))), b(&T::Cat2(b(s), b(&T::All)))));
                v.push(T::Cat2(b(&T::Opt(b(s))), b(t)));
                v.push(T::Cat2(b(&T::Opt(b(t))), b(s)));
                v.push(T::Not(b(&T::Alt2(b(t), b(s)))));
            }
        }
    }
    for i in 0..n {
        for j in 0..n {
            for k in 0..n {
                if i == j || j == k || i == k {
                    continue;
                }
                let ops = vec![ranges[i].clone(), ranges[j].clone(), ranges[k].clone()];
                v.push(T::Not(Box::new(T::AltL(ops.clone()))));
                let mut with_eps = ops.clone();
                with_eps.push(T::Eps);
                v.push(T::Not(Box::new(T::AltL(with_eps))));
                v.push(T::AltL(ops.clone()));
                v.push(T::AndL(ops.iter().map(|x| T::Not(b(x))).collect()));
            }
        }
    }
    v
}

/// Pairs of DIFFERENT terms with the SAME language (a string spelled in several ways, a star written in several
/// ways, ...) as the two operands of every binary constructor, at the top and one derivative deep.
pub fn same_language_family(pool: &Pool) -> Vec<T> {
    let (a, bb, c) = (T::Chr(pool.a), T::Chr(pool.b), T::Chr(pool.c));
    let ab = T::Str(vec![pool.a, pool.b]);
    let groups: Vec<Vec<T>> = vec![
        // "aab"
        vec![T::Str(vec![pool.a, pool.a, pool.b]), T::Cat2(Box::new(T::Str(vec![pool.a, pool.a])), b(&bb)),
             T::Cat2(b(&a), Box::new(T::Cat2(b(&a), b(&bb)))), T::Cat2(Box::new(T::Pow(b(&a), 2)), b(&bb))],
        // "abab"
        vec![T::Str(vec![pool.a, pool.b, pool.a, pool.b]), T::Pow(b(&ab), 2), T::Cat2(b(&ab), b(&ab)),
             T::CatL(vec![a.clone(), bb.clone(), ab.clone()])],
        // "aaa"
        vec![T::Pow(b(&a), 3), T::Cat2(b(&a), Box::new(T::Str(vec![pool.a, pool.a]))), T::Loop(b(&a), 3, Some(3))],
        // (a|b)*
        vec![T::Star(Box::new(T::Alt2(b(&a), b(&bb)))), T::Star(Box::new(T::Rng(pool.a, pool.b))),
             T::Star(Box::new(T::Cat2(Box::new(T::Star(b(&a))), Box::new(T::Star(b(&bb))))))],
        // a+
        vec![T::Plus(b(&a)), T::Cat2(b(&a), Box::new(T::Star(b(&a)))), T::Loop(b(&a), 1, None), T::Cat2(Box::new(T::Star(b(&a))), b(&a))],
        // a?
        vec![T::Opt(b(&a)), T::Alt2(b(&T::Eps), b(&a)), T::Loop(b(&a), 0, Some(1))],
        // everything
        vec![T::All, T::Star(b(&T::AllChar)), T::Not(b(&T::None)), T::Alt2(b(&a), Box::new(T::Not(b(&a))))],
    ];
    let head = T::Alt2(b(&c), Box::new(T::Chr(pool.c + 1)));
    let mut v = vec![];
    for g in &groups {
        for (i, x) in g.iter().enumerate() {
            for (j, y) in g.iter().enumerate() {
                if i == j {
                    continue;
                }
                v.push(T::And2(b(x), b(y)));
                v.push(T::Diff1(b(x), b(y)));
                v.push(T::And2(Box::new(T::Cat2(b(&head), b(x))), Box::new(T::Cat2(b(&head), b(y)))));
                if i < j {
                    v.push(T::Alt2(b(x), b(y)));
                    v.push(T::AndL(vec![x.clone(), T::Not(b(y)), T::All]));
                    v.push(T::Cat2(b(x), b(y)));
                }
            }
        }
    }
    v
}

/// Differences (and intersections with a complement) of two SIMPLE PATTERNS - concatenations of characters, ranges,
/// Sigma* and loops - that denote the same language, or one a sub-language of the other, although only one direction
/// (or neither) is visible syntactically: a redundant loop beside Sigma*, a loop unrolled on the other side. Bare, and
/// behind a common first letter (so that the derivative is the interesting term).
pub fn redundant_loop_difference_family(pool: &Pool) -> Vec<T> {
    let (a, bb, c) = (T::Chr(pool.a), T::Chr(pool.b), T::Chr(pool.c));
    let star = |t: &T| T::Star(b(t));
    let groups: Vec<Vec<T>> = vec![
        // c Sigma*
        vec![T::Cat2(b(&c), b(&T::All)), T::CatL(vec![c.clone(), T::All, star(&bb)]), T::CatL(vec![c.clone(), star(&bb), T::All]),
             T::CatL(vec![c.clone(), T::All, T::Opt(b(&a))]), T::CatL(vec![c.clone(), T::All, T::All])],
        // Sigma* a
        vec![T::Cat2(b(&T::All), b(&a)), T::CatL(vec![star(&bb), T::All, a.clone()]), T::CatL(vec![T::All, star(&a), a.clone()]),
             T::CatL(vec![T::All, T::Rng(pool.a, pool.a)])],
        // Sigma+ and friends (inclusions, not equalities: the difference one way is empty)
        vec![T::SigmaPlus, T::Cat2(b(&T::All), Box::new(star(&T::Rng(pool.a, pool.c)))), T::Cat2(b(&T::AllChar), b(&T::All)),
             T::CatL(vec![T::All, T::AllChar, star(&bb)])],
        // a Sigma* b
        vec![T::CatL(vec![a.clone(), T::All, bb.clone()]), T::CatL(vec![a.clone(), T::All, star(&bb), bb.clone()]),
             T::CatL(vec![a.clone(), star(&a), T::All, bb.clone()])],
    ];
    let mut v = vec![];
    for g in &groups {
        for (i, x) in g.iter().enumerate() {
            for (j, y) in g.iter().enumerate() {
                if i == j {
                    continue;
                }
                v.push(T::Diff1(b(x), b(y)));
                v.push(T::Diff1(Box::new(T::Cat2(b(&c), b(x))), Box::new(T::Cat2(b(&c), b(y)))));
                v.push(T::And2(Box::new(T::Not(b(y))), b(x)));
            }
        }
    }
    v
}

/// Terms whose derivatives for two different classes are a FRESH term x and its complement (both created while
/// the term is expanded for the first time): to be explored on a pristine manager.
pub fn complementary_derivatives_family(pool: &Pool) -> Vec<T> {
    let (a, bb, c) = (T::Chr(pool.a), T::Chr(pool.b), T::Chr(pool.c));
    let ab = T::Rng(pool.a, pool.b);
    let ws: Vec<T> = vec![
        T::Cat2(Box::new(T::Loop(b(&ab), 2, Some(3))), b(&c)),
        T::Loop(b(&ab), 2, Some(4)),
        T::Cat2(b(&ab), Box::new(T::Cat2(b(&ab), b(&c)))),
        T::Pow(Box::new(T::Cat2(b(&ab), b(&c))), 2),
        T::Cat2(Box::new(T::Plus(b(&ab))), b(&c)),
        T::Loop(Box::new(T::Cat2(b(&ab), b(&ab))), 1, None),
    ];
    let mut v = vec![];
    for w in &ws {
        let pa = T::Cat2(b(&a), b(&T::All));
        let pb = T::Cat2(b(&bb), b(&T::All));
        v.push(T::Alt2(Box::new(T::And2(b(&pa), b(w))), Box::new(T::And2(b(&pb), Box::new(T::Not(b(w)))))));
        v.push(T::Alt2(Box::new(T::And2(b(&pb), Box::new(T::Not(b(w))))), Box::new(T::And2(b(&pa), b(w)))));
        v.push(T::Alt2(Box::new(T::Diff1(b(w), b(&pb))), Box::new(T::Diff1(b(&pb), b(w)))));
        v.push(T::Cat2(b(&c), Box::new(T::Alt2(Box::new(T::And2(b(&pa), b(w))), Box::new(T::And2(b(&pb), Box::new(T::Not(b(w)))))))));
    }
    v
}

/// Operand lists of EVERY length 0..12 for the n-ary constructors (union, intersection, concatenation, difference), with
/// operands that cannot be merged or absorbed; and classes that are NOT intervals ({a,c} without b, everything but b)
/// under loops and next to the missing letter.
pub fn every_length_and_holes_family(pool: &Pool) -> Vec<T> {
    let mut v = vec![];
    for n in 0..=12u32 {
        let words: Vec<T> = (0..n).map(|i| T::Str(vec![pool.a + (i % 3), pool.a + ((i / 3) % 3), pool.a + (i % 2)])).collect();
        let nots: Vec<T> = (0..n).map(|i| T::Not(Box::new(T::Str(vec![pool.a + (i % 3), pool.a + ((i / 3) % 3)])))).collect();
        let atoms: Vec<T> = (0..n).map(|i| if i % 2 == 0 { T::Chr(pool.a + (i % 3)) } else { T::Opt(Box::new(T::Chr(pool.a + (i % 3)))) }).collect();
        v.push(T::AltL(words.clone()));
        v.push(T::AndL(nots.clone()));
        v.push(T::CatL(atoms));
        if n >= 1 {
            v.push(T::Cat2(Box::new(T::AltL(words.clone())), Box::new(T::Chr(pool.b))));
            v.push(T::And2(Box::new(T::AndL(nots)), Box::new(T::Loop(Box::new(T::AllChar), 2, Some(3)))));
        }
    }
    let (a, bb, c) = (T::Chr(pool.a), T::Chr(pool.b), T::Chr(pool.c));
    let holes: Vec<T> = vec![
        T::Alt2(b(&a), b(&c)),
        T::Alt2(Box::new(T::Rng(0, pool.a)), Box::new(T::Rng(pool.c, MAX_CHAR))),
        T::And2(b(&T::AllChar), Box::new(T::Not(b(&bb)))),
        T::AltL(vec![a.clone(), c.clone(), T::Chr(pool.c + 2)]),
    ];
    for h in &holes {
        v.push(T::Star(b(h)));
        v.push(T::Cat2(Box::new(T::Plus(b(h))), b(&bb)));
        v.push(T::Cat2(b(&bb), Box::new(T::Star(b(h)))));
        v.push(T::CatL(vec![h.clone(), bb.clone(), h.clone()]));
        v.push(T::Loop(b(h), 2, Some(3)));
        v.push(T::And2(Box::new(T::Star(b(h))), Box::new(T::Cat2(b(&T::All), b(&c)))));
        v.push(T::Not(Box::new(T::Cat2(Box::new(T::Star(b(h))), b(&bb)))));
    }
    v
}

/// A nullable term S next to a loop R^[i,j] whose body contains S (as an alternative, or is S itself): absorption
/// rules `S . R* = R*` are tempting and hold only for unbounded loops. All small bounds, S in front and behind, and
/// loops whose DERIVATIVE has the shape S . R^[i,j-1].
pub fn nullable_beside_loop_family(pool: &Pool) -> Vec<T> {
    let (a, bb) = (T::Chr(pool.a), T::Chr(pool.b));
    let ss: Vec<T> = vec![
        T::Opt(b(&a)),
        T::Opt(Box::new(T::Str(vec![pool.a, pool.b]))),
        T::Star(b(&a)),
        T::Alt2(b(&T::Eps), b(&bb)),
    ];
    let ranges: [(u32, Option<u32>); 7] = [(0, Some(1)), (0, Some(2)), (0, Some(3)), (1, Some(2)), (2, Some(2)), (0, None), (2, None)];
    let mut v = vec![];
    for s in &ss {
        let bodies: Vec<T> = vec![T::Alt2(b(s), b(&bb)), s.clone(), T::Alt2(b(s), Box::new(T::Chr(pool.c))), T::Alt2(b(&a), b(&bb))];
        for (ri, r) in bodies.iter().enumerate() {
            for (k, &(i, j)) in ranges.iter().enumerate() {
                let lp = T::Loop(b(r), i, j);
                v.push(T::Cat2(b(s), b(&lp)));
                if (ri + k) % 2 == 0 {
                    v.push(T::Cat2(b(&lp), b(s)));
                } else {
                    v.push(T::CatL(vec![bb.clone(), s.clone(), lp.clone()]));
                }
            }
        }
        // the derivative for the first letter of x is  s . R^[i, j-1]
        for &(i, j) in &[(0u32, Some(3u32)), (1, Some(3)), (0, Some(2)), (0, None)] {
            let body = T::Alt2(Box::new(T::Cat2(Box::new(T::Chr(pool.c)), b(s))), b(s));
            v.push(T::Loop(b(&body), i, j));
        }
    }
    v
}

/// "Not the word w1, and ends with (starts with, contains) the word w2" for all short words over three letters: the
/// compiled automata have several states with the same character partition, and minimisation merges some of them
/// into blocks represented by a state with a different one.
pub fn excluded_word_family(pool: &Pool) -> Vec<T> {
    let letters = [pool.a, pool.b, pool.c];
    let mut words: Vec<Vec<u32>> = letters.iter().map(|&x| vec![x]).collect();
    for &x in &letters {
        for &y in &letters {
            words.push(vec![x, y]);
        }
    }
    let mut v = vec![];
    for (i, w1) in words.iter().enumerate() {
        for (j, w2) in words.iter().enumerate() {
            let n = T::Not(Box::new(T::Str(w1.clone())));
            let w = T::Str(w2.clone());
            match (i + j) % 3 {
                0 => v.push(T::And2(b(&n), Box::new(T::Cat2(b(&T::All), b(&w))))),
                1 => v.push(T::And2(b(&n), Box::new(T::Cat2(b(&w), b(&T::All))))),
                _ => v.push(T::And2(b(&n), Box::new(T::CatL(vec![T::All, w.clone(), T::All])))),
            }
            if w1.len() == 1 && w2.len() == 2 {
                v.push(T::And2(b(&n), Box::new(T::Cat2(b(&T::All), b(&w)))));
            }
        }
    }
    v
}

/// The empty word removed from a nullable language, in every way the API offers (difference with epsilon, intersection
/// with Sigma+, with the complement of epsilon, with Sigma.Sigma*), for nullable terms of every shape - in particular
/// loops over nullable bodies that the constructors cannot flatten.
pub fn without_empty_word_family(pool: &Pool) -> Vec<T> {
    let (a, bb) = (T::Chr(pool.a), T::Chr(pool.b));
    let st = |t: &T| T::Star(b(t));
    let astar_bstar = T::Cat2(Box::new(st(&a)), Box::new(st(&bb)));
    let xs: Vec<T> = vec![
        st(&a), st(&astar_bstar), st(&T::Alt2(b(&T::Eps), b(&a))), st(&T::And2(Box::new(st(&a)), Box::new(st(&T::Rng(pool.a, pool.b))))),
        T::Plus(b(&astar_bstar)), T::Plus(Box::new(T::Cat2(Box::new(T::Opt(b(&a))), Box::new(T::Opt(b(&bb)))))),
        T::Loop(Box::new(T::Cat2(Box::new(T::Opt(b(&a))), Box::new(T::Opt(b(&bb))))), 2, Some(2)),
        T::Loop(b(&astar_bstar), 2, None), T::Opt(Box::new(T::Str(vec![pool.a, pool.b]))), astar_bstar.clone(),
        st(&T::Not(b(&a))), T::Not(b(&a)), T::All, st(&T::Alt2(b(&a), Box::new(st(&bb)))), T::Eps,
        T::Alt2(b(&T::Eps), Box::new(T::Str(vec![pool.a, pool.a]))),
    ];
    let mut v = vec![];
    for x in &xs {
        v.push(T::Diff1(b(x), b(&T::Eps)));
        v.push(T::And2(b(x), b(&T::SigmaPlus)));
        v.push(T::And2(b(&T::SigmaPlus), b(x)));
        v.push(T::And2(b(x), Box::new(T::Not(b(&T::Eps)))));
        v.push(T::And2(b(x), Box::new(T::Cat2(b(&T::AllChar), b(&T::All)))));
        v.push(T::Cat2(Box::new(T::Diff1(b(x), b(&T::Eps))), b(&bb)));
    }
    v
}

/// Ranges whose end points are landmark code points (ends of narrower character types, the surrogate block, U+FFFD,
/// planes): alone, complemented, followed by a letter, and two of them side by side.
pub fn landmark_range_family() -> Vec<T> {
    let lm = LANDMARKS;
    let mut v = vec![];
    for (i, &lo) in lm.iter().enumerate() {
        for (j, &hi) in lm[i..].iter().enumerate() {
            let r = T::Rng(lo, hi);
            match (i + j) % 4 {
                0 => v.push(r),
                1 => v.push(T::Cat2(b(&r), Box::new(T::Chr(97)))),
                2 => v.push(T::Star(b(&r))),
                _ => v.push(T::And2(Box::new(T::Not(b(&r))), Box::new(T::AllChar))),
            }
        }
    }
    for w in lm.windows(4) {
        if w[1] > w[0] && w[3] > w[2] {
            v.push(T::Alt2(Box::new(T::Rng(w[0], w[1] - 1)), Box::new(T::Rng(w[2], w[3]))));
            v.push(T::And2(Box::new(T::Rng(w[0], w[2])), Box::new(T::Rng(w[1], w[3]))));
        }
    }
    v
}

/// Terms with many derivative classes (sizes around 8/16/32: searches over the class list change strategy there).
pub fn many_classes_family() -> Vec<T> {
    let mut v = vec![];
    // long strings, long lists of operands (sizes around 16/32/64/256)
    for &n in &[17usize, 33, 65, 257] {
        let w: Vec<u32> = (0..n).map(|i| 97 + (i as u32 * 7) % 5).collect();
        v.push(T::Str(w.clone()));
        if n <= 65 {
            v.push(T::Cat2(Box::new(T::Str(w.clone())), Box::new(T::Star(Box::new(T::Chr(97))))));
            v.push(T::CatL(w.iter().map(|&c| if c % 2 == 0 { T::Chr(c) } else { T::Rng(c, c + 1) }).collect()));
        }
    }
    for &n in &[17u32, 33] {
        v.push(T::AndL((0..n).map(|i| T::Not(Box::new(T::Chr(200 + 2 * i)))).collect()));
        v.push(T::AltL((0..n).map(|i| T::Str(vec![97, 200 + 2 * i])).collect()));
    }
    for &n in &[9u32, 16, 17, 18, 20, 33, 40] {
        let sep: Vec<T> = (0..n).map(|i| T::Chr(100 + 3 * i)).collect();
        let adj: Vec<T> = (0..n).map(|i| T::Chr(100 + i)).collect();
        let pairs: Vec<T> = (0..n).map(|i| T::Rng(100 + 4 * i, 101 + 4 * i)).collect();
        let digit = T::Rng(48, 57);
        v.push(T::Cat2(Box::new(T::AltL(sep.clone())), b(&digit)));
        v.push(T::Cat2(b(&digit), Box::new(T::AltL(sep.clone()))));
        v.push(T::Not(Box::new(T::AltL(pairs.clone()))));
        if n <= 20 {
            v.push(T::Star(Box::new(T::AltL(pairs.clone()))));
            // adjacent singletons stay separate classes: each is followed by a different letter of a small set
            let arms: Vec<T> = adj.iter().enumerate().map(|(i, c)| if i % 2 == 0 { c.clone() } else { T::Cat2(b(c), b(&digit)) }).take(14).collect();
            v.push(T::AltL(arms));
        }
        // every second class goes one way, the others another way: the classes cannot be merged
        let even: Vec<T> = sep.iter().step_by(2).cloned().collect();
        let odd: Vec<T> = sep.iter().skip(1).step_by(2).cloned().collect();
        if n <= 33 {
            v.push(T::Alt2(Box::new(T::Cat2(Box::new(T::AltL(even)), b(&digit))), Box::new(T::AltL(odd))));
        }
    }
    v
}

/// Complements (and other terms with a non-trivial complementary class) in NON-head positions: after a
/// prefix, under a loop, inside one arm of a union - states reached later have defaults of their own.
pub fn complement_inside_family(pool: &Pool) -> Vec<T> {
    let (a, bb, c) = (T::Chr(pool.a), T::Chr(pool.b), T::Chr(pool.c));
    let ab = T::Str(vec![pool.a, pool.b]);
    let inner: Vec<T> = vec![
        T::Cat2(b(&bb), b(&T::All)),
        T::Cat2(b(&T::All), b(&bb)),
        T::CatL(vec![T::All, bb.clone(), T::All]),
        bb.clone(),
        T::Eps,
        T::Cat2(b(&ab), b(&T::All)),
        T::Rng(pool.a, pool.b),
        T::Star(b(&bb)),
    ];
    let heads: Vec<T> = vec![a.clone(), ab.clone(), T::Rng(pool.a, pool.b), T::Star(b(&a)), T::AllChar, T::Opt(b(&c))];
    let mut v = vec![];
    // a complemented head followed by a nullable tail that itself starts with a complement or with Sigma: states
    // reached only through default edges, nullable without being the target of any explicit transition
    {
        let chead: Vec<T> = vec![
            T::Not(Box::new(T::Star(b(&a)))), T::Not(Box::new(T::Star(Box::new(T::Rng(pool.a, pool.b))))),
            T::Not(Box::new(T::Opt(b(&a)))), T::Not(b(&T::Eps)), T::Not(Box::new(T::Plus(b(&ab)))),
        ];
        let ntail: Vec<T> = vec![
            T::Not(b(&a)), T::Opt(Box::new(T::Not(b(&bb)))), T::Opt(b(&T::AllChar)), T::Star(Box::new(T::Not(b(&a)))),
            T::Not(Box::new(T::Cat2(b(&bb), b(&T::All)))), T::Opt(b(&a)), T::All,
        ];
        // the same complements one level down in the head: under a loop, a union, an intersection
        let mut wrapped: Vec<T> = vec![];
        for h in &chead {
            wrapped.push(T::Plus(b(h)));
            wrapped.push(T::Alt2(b(h), b(&a)));
            wrapped.push(T::Loop(b(h), 1, Some(2)));
            wrapped.push(T::And2(b(h), Box::new(T::Not(Box::new(T::Cat2(b(&c), b(&T::All)))))));
        }
        for h in &wrapped {
            for y in [&bb, &c, &ab] {
                v.push(T::Cat2(b(h), b(y)));
                v.push(T::Cat2(b(&c), Box::new(T::Cat2(b(h), b(y)))));
            }
            v.push(T::Cat2(b(h), Box::new(T::Opt(b(&bb)))));
        }
        for h in &chead {
            for y in &ntail {
                let hy = T::Cat2(b(h), b(y));
                v.push(hy.clone());
                v.push(T::Cat2(b(&c), b(&hy)));
                v.push(T::Alt2(b(&hy), b(&c)));
            }
        }
    }
    for y in &inner {
        let n = T::Not(b(y));
        for x in &heads {
            v.push(T::Cat2(b(x), b(&n)));
            v.push(T::Cat2(b(&n), b(x)));
            v.push(T::Alt2(b(&c), Box::new(T::Cat2(b(x), b(&n)))));
        }
        v.push(T::Star(Box::new(T::Cat2(b(&a), b(&n)))));
        v.push(T::CatL(vec![a.clone(), n.clone(), c.clone()]));
        v.push(T::And2(Box::new(T::Cat2(b(&a), b(&n))), Box::new(T::Cat2(b(&T::All), b(&c)))));
        v.push(T::Cat2(b(&a), Box::new(T::Diff1(b(&T::Plus(b(&T::AllChar))), b(y)))));
    }
    v
}

/// Unions / intersections whose operands are related by inclusion (directly or under complement):
/// the constructors prune subsumed operands with the syntactic inclusion test, and derivatives of
/// such terms create new unions of the same kind.
pub fn subsumption_family(pool: &Pool) -> Vec<T> {
    let (a, bb) = (T::Chr(pool.a), T::Chr(pool.b));
    let ab = T::Rng(pool.a, pool.b);
    let abc = T::Rng(pool.a, pool.c);
    let sab = T::Str(vec![pool.a, pool.b]);
    let sabc = T::Str(vec![pool.a, pool.b, pool.c]);
    let pre = T::Cat2(b(&sab), b(&T::All));
    let suf = T::Cat2(b(&T::All), b(&bb));
    let c_ab = T::Cat2(b(&T::Chr(pool.c)), b(&T::Alt2(b(&a), b(&bb))));
    let c_a = T::Cat2(b(&T::Chr(pool.c)), b(&a));
    let items: Vec<T> = vec![
        a.clone(), bb.clone(), ab.clone(), abc.clone(), sab.clone(), sabc.clone(), pre.clone(), suf.clone(), c_ab, c_a,
        T::Star(b(&a)), T::Plus(b(&a)), T::Opt(b(&a)), T::AllChar, T::Alt2(b(&a), b(&bb)), T::Eps,
        T::Loop(b(&ab), 1, Some(2)), T::Star(b(&ab)),
    ];
    let mut v = vec![];
    for x in &items {
        for y in &items {
            if x == y {
                continue;
            }
            let (nx, ny) = (T::Not(b(x)), T::Not(b(y)));
            v.push(T::Alt2(b(&nx), b(&ny)));
            v.push(T::And2(b(&nx), b(&ny)));
            v.push(T::Alt2(b(x), b(&ny)));
            v.push(T::And2(b(&nx), b(y)));
            v.push(T::Alt2(b(x), b(y)));
            v.push(T::And2(b(x), b(y)));
        }
    }
    for x in &items {
        for y in &items {
            // unions that only arise as derivatives: c . (x | ~y)  and  ~(c.x) | ~(c.y)
            let c = T::Chr(pool.c);
            v.push(T::Alt2(Box::new(T::Not(Box::new(T::Cat2(b(&c), b(x))))), Box::new(T::Not(Box::new(T::Cat2(b(&c), b(y)))))));
            v.push(T::AltL(vec![T::Not(b(x)), T::Not(b(y)), a.clone()]));
            v.push(T::AndL(vec![T::Not(b(x)), T::Not(b(y)), T::All]));
        }
    }
    v
}

/// Terms that denote the empty language without being syntactically empty, and terms built on
/// them (C05, C18): intersections of disjoint languages, complements of universal languages
/// built the long way, loops and concatenations over such operands.
pub fn semantically_empty_family(pool: &Pool) -> Vec<T> {
    let (a, bb) = (T::Chr(pool.a), T::Chr(pool.b));
    let ab = T::Str(vec![pool.a, pool.b]);
    let univ_long = T::Alt2(b(&a), Box::new(T::Not(b(&a)))); // a | ~a
    let e1 = T::And2(b(&a), b(&bb)); // disjoint first letters
    let e2 = T::And2(b(&T::AllChar), b(&ab)); // different lengths
    let e3 = T::Not(b(&univ_long));
    let e4 = T::And2(Box::new(T::Star(b(&a))), Box::new(T::Plus(b(&bb))));
    let e5 = T::Diff1(b(&a), Box::new(T::Rng(pool.a, pool.b)));
    let e6 = T::And2(Box::new(T::Pow(b(&T::AllChar), 2)), Box::new(T::Pow(b(&T::AllChar), 3)));
    let e7 = T::AndL(vec![T::Star(b(&ab)), T::Plus(b(&T::AllChar)), T::Not(Box::new(T::Cat2(b(&ab), b(&T::All))))]);
    // complements of terms that are universal semantically but not syntactically (the empty term is then a
    // complement NODE, not a base term)
    let u1 = T::Alt2(Box::new(T::Not(b(&a))), Box::new(T::Not(b(&bb))));
    let u2 = T::Alt2(Box::new(T::Not(Box::new(T::Cat2(b(&a), b(&T::All))))), Box::new(T::Not(Box::new(T::Cat2(b(&bb), b(&T::All))))));
    let u3 = T::Star(Box::new(T::Alt2(Box::new(T::Rng(0, pool.a)), Box::new(T::Rng(pool.a + 1, MAX_CHAR)))));
    let u4 = T::Alt2(Box::new(T::Opt(b(&a))), Box::new(T::Not(b(&a))));
    let e8 = T::Not(b(&u1));
    let e9 = T::Not(b(&u2));
    let e10 = T::Not(b(&u3));
    let e11 = T::Not(b(&u4));
    let empties = vec![e1, e2, e3, e4, e5, e6, e7, e8, e9, e10, e11];
    let mut v = empties.clone();
    // unions / intersections of two DIFFERENT empty terms stay unions: nothing syntactic says they are empty
    for (i, e1) in empties.iter().enumerate() {
        for e2 in empties.iter().skip(i + 1) {
            let u = T::Alt2(b(e1), b(e2));
            v.push(u.clone());
            v.push(T::Cat2(b(&a), b(&u)));
            v.push(T::Cat2(b(&u), b(&a)));
            v.push(T::Plus(Box::new(T::Cat2(b(&a), b(&u)))));
            v.push(T::Cat2(Box::new(T::Opt(b(&bb))), Box::new(T::Cat2(b(&a), b(&u)))));
            v.push(T::Cat2(b(&a), Box::new(T::Cat2(b(&bb), b(&u)))));
        }
    }
    // the same compound head in front of a dead tail and in front of a live tail (both creation orders), as the
    // operands of a union / inside a loop: what was found out about the head under the dead tail says nothing
    // about it under the live one
    {
        let cc = T::Chr(pool.c);
        let heads: Vec<T> = vec![
            T::Plus(b(&a)), T::Star(Box::new(T::Alt2(b(&a), b(&bb)))), T::Cat2(b(&a), b(&bb)),
            T::Cat2(Box::new(T::Opt(b(&a))), b(&bb)), T::Loop(b(&ab), 1, Some(2)), T::Alt2(b(&a), b(&ab)),
        ];
        for h in &heads {
            for e in empties.iter().take(5) {
                let dead = T::Cat2(b(h), b(e));
                let live = T::Cat2(b(h), b(&cc));
                v.push(T::Alt2(b(&dead), b(&live)));
                v.push(T::Alt2(b(&live), b(&dead)));
                v.push(T::AltL(vec![dead.clone(), T::Cat2(b(&cc), b(&dead)), live.clone()]));
                v.push(T::Star(Box::new(T::Alt2(b(&dead), b(&live)))));
                v.push(T::Cat2(Box::new(T::Opt(b(&dead))), b(&live)));
            }
        }
    }
    // three languages that overlap pairwise but have no common string ({x,y}, {x,z}, {y,z}), as unions of words and
    // as "simple patterns" (ranges, optional letters): an intersection is empty although no two operands are disjoint
    {
        let words: Vec<(Vec<u32>, Vec<u32>, Vec<u32>)> = vec![
            (vec![pool.a], vec![pool.b], vec![pool.a, pool.b]),
            (vec![pool.a, pool.a], vec![pool.a], vec![pool.a, pool.a, pool.a]),
            (vec![], vec![pool.a], vec![pool.b]),
        ];
        for (x, y, z) in &words {
            let w = |u: &Vec<u32>| if u.is_empty() { T::Eps } else { T::Str(u.clone()) };
            let l1 = T::Alt2(Box::new(w(x)), Box::new(w(y)));
            let l2 = T::Alt2(Box::new(w(x)), Box::new(w(z)));
            let l3 = T::Alt2(Box::new(w(y)), Box::new(w(z)));
            let e = T::AndL(vec![l1.clone(), l2.clone(), l3.clone()]);
            v.push(e.clone());
            v.push(T::Cat2(b(&a), b(&e)));
            v.push(T::And2(Box::new(T::And2(b(&l1), b(&l2))), b(&l3)));
        }
        // {a,b} & {a,ab} & {b,ab} with ranges and optional letters only
        let p1 = T::Rng(pool.a, pool.b);
        let p2 = T::Cat2(b(&a), Box::new(T::Opt(b(&bb))));
        let p3 = T::Cat2(Box::new(T::Opt(b(&a))), b(&bb));
        let p4 = T::Loop(Box::new(T::Rng(pool.a, pool.b)), 1, Some(2));
        v.push(T::AndL(vec![p1.clone(), p2.clone(), p3.clone()]));
        v.push(T::AndL(vec![p3.clone(), p1.clone(), p2.clone()]));
        v.push(T::AndL(vec![p1.clone(), p2.clone(), p3.clone(), p4.clone()]));
        v.push(T::Cat2(b(&bb), Box::new(T::AndL(vec![p1.clone(), p2.clone(), p3.clone()]))));
        v.push(T::AndL(vec![p4, p2, p3]));    // not empty: {ab}
    }
    // a nullable loop over a dead body denotes {""}: inside the body of a non-nullable loop / a power / a
    // concatenation it must not make the whole thing look dead
    for e in empties.iter().take(6) {
        let se = T::Star(b(e));
        let oe = T::Opt(b(e));
        v.push(T::Plus(Box::new(T::Cat2(b(&a), b(&se)))));
        v.push(T::Loop(Box::new(T::Cat2(b(&a), b(&oe))), 1, Some(2)));
        v.push(T::Pow(Box::new(T::Cat2(b(&se), b(&a))), 2));
        v.push(T::Cat2(b(&bb), Box::new(T::Plus(Box::new(T::Cat2(b(&a), b(&se)))))));
        v.push(T::Plus(Box::new(T::Cat2(b(&se), Box::new(T::Cat2(b(&a), b(&oe)))))));
        v.push(T::Loop(Box::new(T::Alt2(Box::new(T::Cat2(b(&a), b(&se))), b(e))), 2, Some(3)));
    }
    for e in &empties {
        v.push(T::Star(b(e)));
        v.push(T::Opt(b(e)));
        v.push(T::Plus(b(e)));
        v.push(T::Loop(b(e), 0, Some(2)));
        v.push(T::Loop(b(e), 1, None));
        v.push(T::Cat2(b(&a), b(e)));
        v.push(T::Cat2(b(e), b(&a)));
        v.push(T::Cat2(b(&T::All), b(e)));
        v.push(T::Cat2(Box::new(T::Star(b(&a))), b(e)));
        v.push(T::Cat2(Box::new(T::Opt(b(&a))), Box::new(T::Cat2(b(e), b(&bb)))));
        v.push(T::Alt2(b(e), b(&bb)));
        v.push(T::And2(b(&T::All), b(e)));
        v.push(T::Not(b(e)));
        v.push(T::Not(Box::new(T::Not(b(e)))));
        v.push(T::Cat2(Box::new(T::Star(b(e))), b(&a)));
        v.push(T::Cat2(b(&a), Box::new(T::Cat2(b(&bb), b(e)))));
        v.push(T::Star(Box::new(T::Cat2(b(&a), b(e)))));
        v.push(T::Diff1(b(&T::All), Box::new(T::Not(b(e)))));
    }
    v
}

#![allow(dead_code)]
mod automata;
mod charsets;
mod components;
mod ctor;
mod dump;
mod loopranges;
mod manager;
mod partitions;
mod regex;
mod strings;
mod terms;
mod util;

use util::Args;

fn usage() -> ! {
    eprintln!("usage: vh drive <family> --out DIR [--tier quick|thorough] [--seed N] [extra..]");
    std::process::exit(2);
}

fn main() {
    let argv: Vec<String> = std::env::args().collect();
    if argv.len() < 3 {
        usage();
    }
    let mut a = Args {
        tier: "quick".into(),
        seed: 1,
        out: String::new(),
        rest: vec![],
    };
    let mut i = 3;
    while i < argv.len() {
        match argv[i].as_str() {
            "--tier" => {
                a.tier = argv[i + 1].clone();
                i += 2;
            }
            "--seed" => {
                a.seed = argv[i + 1].parse().expect("seed");
                i += 2;
            }
            "--out" => {
                a.out = argv[i + 1].clone();
                i += 2;
            }
            _ => {
                a.rest.push(argv[i].clone());
                i += 1;
            }
        }
    }
    if a.out.is_empty() {
        usage();
    }
    util::silence_panics();
    match (argv[1].as_str(), argv[2].as_str()) {
        ("drive", "charsets") => charsets::drive(&a),
        ("drive", "partitions") => partitions::drive(&a),
        ("replay", "partitions") => partitions::replay(&a),
        ("drive", "loopranges") => loopranges::drive(&a),
        ("drive", "c06") => strings::drive_c06(&a),
        ("drive", "c08") => strings::drive_c08(&a),
        ("drive", "c09") => strings::drive_c09(&a),
        ("drive", "c17") => strings::drive_c17(&a),
        ("replay", "builder") => automata::replay_builder(&a),
        ("drive", "builder") => automata::drive_builder(&a),
        ("replay", "dfa") => automata::replay_dfa(&a),
        ("drive", "automata") => automata::drive_automata(&a),
        ("drive", "hopcroft") => automata::drive_hopcroft(&a),
        ("replay", "manager") => manager::replay(&a),
        ("drive", "manager") => manager::drive(&a),
        ("replay", "components") => components::replay(&a),
        ("drive", "ctor") => ctor::drive(&a),
        ("drive", "c01") => regex::drive_c01(&a),
        ("drive", "c02") => regex::drive_c02(&a),
        ("drive", "c03") => regex::drive_c03(&a),
        ("drive", "c05") => regex::drive_c05(&a),
        ("drive", "c10") => regex::drive_c10(&a),
        ("drive", "c16") => regex::drive_c16(&a),
        ("drive", "c18") => regex::drive_c18(&a),
        ("drive", "c19") => regex::drive_c19(&a),
        _ => usage(),
    }
}

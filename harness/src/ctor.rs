//! One-step conformance of the constructors and of the derivative (Trace_Constructors.tla).
//! The syntax trees of real terms are read through the accessor hooks (RE::verif_expr,
//! LoopRange::verif_bounds); every constructor call made here is logged with the trees of its
//! arguments and of its result; derivatives are logged one level at a time.
use crate::regex::families;
use crate::terms::T;
use crate::util::{guarded, Args, Out, Rng};
use aws_smt_strings::character_sets::CharSet;
use aws_smt_strings::loop_ranges::LoopRange;
use aws_smt_strings::regular_expressions::{BaseRegLan, ReManager, RegLan};
use aws_smt_strings::smt_strings::{SmtString, MAX_CHAR};
use serde_json::{json, Value};
use std::collections::{BTreeSet, HashSet};

/// the tree of a real term; None when it has more than `budget` nodes
pub fn shape(e: RegLan, budget: &mut i64) -> Option<Value> {
    *budget -= 1;
    if *budget < 0 {
        return None;
    }
    Some(match e.verif_expr() {
        BaseRegLan::Empty => json!({"k":"none"}),
        BaseRegLan::Epsilon => json!({"k":"eps"}),
        BaseRegLan::Range(s) => {
            let (lo, hi) = crate::dump::ranges_of(std::iter::once(s))[0];
            json!({"k":"rng","lo":lo,"hi":hi})
        }
        BaseRegLan::Concat(a, b) => json!({"k":"cat2","a":shape(a, budget)?,"b":shape(b, budget)?}),
        BaseRegLan::Loop(a, r) => {
            let (lo, hi) = r.verif_bounds();
            json!({"k":"loop","a":shape(a, budget)?,"lo":lo,"hi":hi.map(|x| x as i64).unwrap_or(-1)})
        }
        BaseRegLan::Complement(a) => json!({"k":"not","a":shape(a, budget)?}),
        BaseRegLan::Union(v) => {
            let mut xs = vec![];
            for x in v.iter() {
                xs.push(shape(x, budget)?);
            }
            json!({"k":"alt","xs":xs})
        }
        BaseRegLan::Inter(v) => {
            let mut xs = vec![];
            for x in v.iter() {
                xs.push(shape(x, budget)?);
            }
            json!({"k":"and","xs":xs})
        }
    })
}

/// a rough bound on the size of the residual automaton TLC will build for this tree
fn weight(e: RegLan) -> u64 {
    match e.verif_expr() {
        BaseRegLan::Empty | BaseRegLan::Epsilon | BaseRegLan::Range(_) => 1,
        BaseRegLan::Concat(a, b) => 1 + weight(a) + weight(b),
        BaseRegLan::Loop(a, r) => {
            let (lo, hi) = r.verif_bounds();
            let n = hi.unwrap_or(lo).max(1) as u64;
            // a loop over something that contains a loop or a complement: the residual states are sets of pairs of
            // sets - far more than the node count suggests
            let nested = if has_loop_or_not(a) { 25 } else { 0 };
            1 + weight(a).saturating_mul(n.min(1000)) + nested
        }
        BaseRegLan::Complement(a) => 1 + weight(a),
        BaseRegLan::Union(v) | BaseRegLan::Inter(v) => 1 + v.iter().map(|x| weight(x)).sum::<u64>(),
    }
}

fn has_loop_or_not(e: RegLan) -> bool {
    match e.verif_expr() {
        BaseRegLan::Empty | BaseRegLan::Epsilon | BaseRegLan::Range(_) => false,
        BaseRegLan::Loop(..) | BaseRegLan::Complement(_) => true,
        BaseRegLan::Concat(a, b) => has_loop_or_not(a) || has_loop_or_not(b),
        BaseRegLan::Union(v) | BaseRegLan::Inter(v) => v.iter().any(|x| has_loop_or_not(x)),
    }
}

const NODES: i64 = 60;
const SEM_WEIGHT: u64 = 40;

struct Log<'a> {
    out: &'a mut Out,
    dout: &'a mut Out,
    seen: &'a mut HashSet<String>,
    fam: &'static str,
    id: usize,
    nctor: usize,
    nskip: usize,
}

impl Log<'_> {
    fn ctor(&mut self, f: &str, args: &[RegLan], ints: Vec<i64>, res: RegLan) {
        let mut budget = NODES;
        let mut a = vec![];
        for x in args {
            match shape(x, &mut budget) {
                Some(s) => a.push(s),
                None => {
                    self.nskip += 1;
                    return;
                }
            }
        }
        let r = match shape(res, &mut budget) {
            Some(s) => s,
            None => {
                self.nskip += 1;
                return;
            }
        };
        let w: u64 = args.iter().map(|x| weight(x)).sum::<u64>() + weight(res);
        let key = json!(["c", f, a, ints, r]).to_string();
        if !self.seen.insert(key) {
            return;
        }
        self.nctor += 1;
        let cls: Vec<Value> = crate::dump::ranges_of(res.char_ranges()).into_iter().map(|(lo, hi)| json!([lo, hi])).collect();
        self.out.emit(json!({"op":"ctor","f":f,"fam":self.fam,"id":self.id,"args":a,"ints":ints,"res":r,
            "nullable":res.nullable,"cls":cls,"sem": w <= SEM_WEIGHT}));
    }
}

fn build(t: &T, m: &mut ReManager, lg: &mut Log) -> RegLan {
    let un = |f: &str, a: &T, m: &mut ReManager, lg: &mut Log, ints: Vec<i64>, op: &dyn Fn(&mut ReManager, RegLan) -> RegLan| {
        let x = build(a, m, lg);
        let r = op(m, x);
        lg.ctor(f, &[x], ints, r);
        r
    };
    match t {
        T::None => { let r = m.empty(); lg.ctor("empty", &[], vec![], r); r }
        T::Eps => { let r = m.epsilon(); lg.ctor("epsilon", &[], vec![], r); r }
        T::All => { let r = m.full(); lg.ctor("full", &[], vec![], r); r }
        T::AllChar => { let r = m.all_chars(); lg.ctor("all_chars", &[], vec![], r); r }
        T::SigmaPlus => { let r = m.sigma_plus(); lg.ctor("sigma_plus", &[], vec![], r); r }
        T::Rng(a, b) => {
            let r = if (a ^ b) & 1 == 0 { m.range(*a, *b) } else { m.char_set(CharSet::range(*a, *b)) };
            lg.ctor("range", &[], vec![*a as i64, *b as i64], r);
            r
        }
        T::Chr(c) => { let r = m.char(*c); lg.ctor("char", &[], vec![*c as i64], r); r }
        T::Str(w) => {
            let r = m.str(&SmtString::from(w.clone()));
            lg.ctor("str", &[], w.iter().map(|&x| x as i64).collect(), r);
            r
        }
        T::SmtRange(a, b) => m.smt_range(&SmtString::from(a.clone()), &SmtString::from(b.clone())),
        T::Cat2(a, b) => {
            let (x, y) = (build(a, m, lg), build(b, m, lg));
            let r = m.concat(x, y);
            lg.ctor("concat", &[x, y], vec![], r);
            r
        }
        T::CatL(v) => {
            let xs: Vec<RegLan> = v.iter().map(|x| build(x, m, lg)).collect();
            let r = m.concat_list(xs.clone());
            lg.ctor("concat_list", &xs, vec![], r);
            r
        }
        T::Alt2(a, b) => {
            let (x, y) = (build(a, m, lg), build(b, m, lg));
            let r = m.union(x, y);
            lg.ctor("union", &[x, y], vec![], r);
            r
        }
        T::AltL(v) => {
            let xs: Vec<RegLan> = v.iter().map(|x| build(x, m, lg)).collect();
            let r = m.union_list(xs.clone());
            lg.ctor("union_list", &xs, vec![], r);
            r
        }
        T::And2(a, b) => {
            let (x, y) = (build(a, m, lg), build(b, m, lg));
            let r = m.inter(x, y);
            lg.ctor("inter", &[x, y], vec![], r);
            r
        }
        T::AndL(v) => {
            let xs: Vec<RegLan> = v.iter().map(|x| build(x, m, lg)).collect();
            let r = m.inter_list(xs.clone());
            lg.ctor("inter_list", &xs, vec![], r);
            r
        }
        T::Not(a) => un("complement", a, m, lg, vec![], &|m, x| m.complement(x)),
        T::Diff1(a, b) => {
            let (x, y) = (build(a, m, lg), build(b, m, lg));
            let r = m.diff(x, y);
            lg.ctor("diff", &[x, y], vec![], r);
            r
        }
        T::DiffL(a, v) => {
            let x = build(a, m, lg);
            let xs: Vec<RegLan> = v.iter().map(|x| build(x, m, lg)).collect();
            let r = m.diff_list(x, xs.clone());
            let mut all = vec![x];
            all.extend(xs);
            lg.ctor("diff_list", &all, vec![], r);
            r
        }
        T::Star(a) => un("star", a, m, lg, vec![], &|m, x| m.star(x)),
        T::Plus(a) => un("plus", a, m, lg, vec![], &|m, x| m.plus(x)),
        T::Opt(a) => un("opt", a, m, lg, vec![], &|m, x| m.opt(x)),
        T::Pow(a, n) => {
            let n = *n;
            un("exp", a, m, lg, vec![n as i64], &move |m, x| m.exp(x, n))
        }
        T::SmtLoop(a, i, j) => {
            let (i, j) = (*i, *j);
            un("smt_loop", a, m, lg, vec![i as i64, j as i64], &move |m, x| m.smt_loop(x, i, j))
        }
        T::Loop(a, i, j) => {
            let (i, j) = (*i, *j);
            un("mk_loop", a, m, lg, vec![i as i64, j.map(|x| x as i64).unwrap_or(-1)], &move |m, x| {
                let r = match j {
                    Some(j) => LoopRange::finite(i, j),
                    None => LoopRange::infinite(i),
                };
                m.mk_loop(x, r)
            })
        }
        T::Quot(c, a) => {
            let x = build(a, m, lg);
            m.char_derivative(x, *c)
        }
    }
}

fn children(e: RegLan) -> Vec<RegLan> {
    match e.verif_expr() {
        BaseRegLan::Empty | BaseRegLan::Epsilon | BaseRegLan::Range(_) => vec![],
        BaseRegLan::Concat(a, b) => vec![*a, *b],
        BaseRegLan::Loop(a, _) => vec![*a],
        BaseRegLan::Complement(a) => vec![*a],
        BaseRegLan::Union(v) | BaseRegLan::Inter(v) => v.to_vec(),
    }
}

/// one level of the derivative: e, c, the real derivatives of the immediate sub-terms, the result
fn dstep(m: &mut ReManager, e: RegLan, c: u32, lg: &mut Log) -> Option<RegLan> {
    let kids = children(e);
    let subs: Vec<RegLan> = kids.iter().map(|&k| m.char_derivative(k, c)).collect();
    let res = m.char_derivative(e, c);
    let mut budget = NODES;
    let se = shape(e, &mut budget)?;
    let mut ss = vec![];
    for s in &subs {
        ss.push(shape(s, &mut budget)?);
    }
    let sr = shape(res, &mut budget)?;
    let w = weight(e) + weight(res);
    let key = json!(["d", se, c, ss, sr]).to_string();
    if !lg.seen.insert(key) {
        return Some(res);
    }
    lg.nctor += 1;
    lg.dout.emit(json!({"op":"dstep","fam":lg.fam,"id":lg.id,"e":se,"c":c,"subs":ss,"res":sr,"sem": w <= SEM_WEIGHT}));
    Some(res)
}

pub fn drive(a: &Args) {
    let mut rng = Rng::new(a.seed ^ 0xC7);
    let fams = families(a, &mut rng);
    let mut out = Out::create(&a.out, "ctor_steps.ndjson");
    let mut dout = Out::create(&a.out, "deriv_steps.ndjson");
    let mut m = ReManager::new();
    let mut seen_recs: HashSet<String> = HashSet::new();
    let (mut nterms, mut nctor, mut nskip, mut npanic) = (0usize, 0usize, 0usize, 0usize);
    let per_term = a.sz(4, 12);
    for (id, f) in fams.iter().enumerate() {
        if f.t.cost() > crate::regex::COST_LIMIT {
            continue;
        }
        if id % 50 == 0 {
            m = ReManager::new();
        }
        let mut ends = vec![];
        f.t.ends(&mut ends);
        let mut reps: BTreeSet<u32> = ends.into_iter().filter(|&x| x <= MAX_CHAR).collect();
        reps.insert(0);
        let mut reps: Vec<u32> = reps.into_iter().collect();
        while reps.len() > 4 {
            let i = rng.below(reps.len() as u64) as usize;
            reps.remove(i);
        }
        let mut lg = Log { out: &mut out, dout: &mut dout, seen: &mut seen_recs, fam: f.fam, id, nctor: 0, nskip: 0 };
        let r = guarded(|| {
            let e = build(&f.t, &mut m, &mut lg);
            // derivatives, one level at a time, breadth first from the root
            let mut seen: HashSet<usize> = HashSet::new();
            let mut queue = vec![e];
            seen.insert(e.verif_id());
            let mut k = 0;
            while k < queue.len() && k < per_term {
                let x = queue[k];
                k += 1;
                for &c in &reps {
                    if let Some(d) = dstep(&mut m, x, c, &mut lg) {
                        if seen.insert(d.verif_id()) {
                            queue.push(d);
                        }
                    }
                }
            }
        });
        nterms += 1;
        nctor += lg.nctor;
        nskip += lg.nskip;
        if r.is_err() {
            npanic += 1;
            out.emit(json!({"op":"panic","where":"C01:constructor_or_derivative_panicked","id":id,"fam":f.fam,"ast":f.t.json()}));
        }
    }
    let n = out.finish() + dout.finish();
    println!("{{\"family\":\"ctor\",\"terms\":{},\"records\":{},\"steps\":{},\"skipped_large\":{},\"panics\":{}}}", nterms, n, nctor, nskip, npanic);
}

//! Drivers for the regular-expression properties.  Every record carries the construction AST of
//! the term it is about; all judging happens in TLA+ (Trace_Product, Trace_Regex).
use crate::dump::*;
use crate::terms::*;
use crate::util::*;
use aws_smt_strings::regular_expressions::{ReManager, RegLan};
use aws_smt_strings::smt_regular_expressions as smt;
use aws_smt_strings::smt_strings::SmtString;
use serde_json::{json, Map, Value};
use std::collections::BTreeSet;

/// cases above this heuristic cost are checked on bounded words only (see T::cost)
pub const COST_LIMIT: u64 = 48;

pub struct Fam {
    pub t: T,
    pub fam: &'static str,
}

/// The term families shared by C01/C02/C03/C05/C18/C19 (DESIGN 5, C01 "Gen").
pub fn families(a: &Args, rng: &mut Rng) -> Vec<Fam> {
    let mut v = vec![];
    let pool = Pool::new(rng, true);
    // depth <= 1 over the extended atom pool: complete
    for t in depth1(&pool.more_atoms()) {
        v.push(Fam { t, fam: "depth1" });
    }
    // depth 2 over the six core atoms: stratified sample (quick) or larger sample (thorough)
    let core = vec![T::None, T::Eps, T::Chr(pool.a), T::Chr(pool.b), T::Rng(pool.a, pool.b), T::AllChar];
    let d2_stride = match a.rest.iter().position(|x| x == "--d2-stride") {
        Some(i) => a.rest[i + 1].parse().unwrap(),
        None => a.sz(61, 13),
    };
    let off = (a.seed as usize) % d2_stride;
    for t in depth2(&core, d2_stride, off, true) {
        v.push(Fam { t, fam: "depth2" });
    }
    // a second layout of the letters (boundaries of the alphabet) for depth 1
    let pool2 = Pool::new(rng, false);
    for (i, t) in depth1(&pool2.atoms()).into_iter().enumerate() {
        if i % 3 == (a.seed as usize) % 3 || a.thorough() {
            v.push(Fam { t, fam: "depth1-layout2" });
        }
    }
    for t in semantically_empty_family(&pool) {
        v.push(Fam { t, fam: "sem-empty" });
    }
    for (i, t) in subsumption_family(&pool).into_iter().enumerate() {
        if a.thorough() || i % 2 == (a.seed as usize) % 2 {
            v.push(Fam { t, fam: "subsumption" });
        }
    }
    for t in loop_family(&pool) {
        v.push(Fam { t, fam: "loop-of-loop" });
    }
    for t in quotient_family(&pool) {
        v.push(Fam { t, fam: "derivative-as-operand" });
    }
    for (i, t) in shared_subterm_family(&pool).into_iter().enumerate() {
        if a.thorough() || i % 2 == (a.seed as usize) % 2 {
            v.push(Fam { t, fam: "shared-subterm" });
        }
    }
    for t in adjacent_range_family(&pool) {
        v.push(Fam { t, fam: "adjacent-ranges" });
    }
    for (i, t) in same_language_family(&pool).into_iter().enumerate() {
        if a.thorough() || i % 2 == (a.seed as usize) % 2 {
            v.push(Fam { t, fam: "same-language" });
        }
    }
    for t in complementary_derivatives_family(&pool) {
        v.push(Fam { t, fam: "fresh-manager" });
    }
    for t in every_length_and_holes_family(&pool) {
        v.push(Fam { t, fam: "every-length-lists-and-holes" });
    }
    for t in without_empty_word_family(&pool) {
        v.push(Fam { t, fam: "without-empty-word" });
    }
    for t in excluded_word_family(&pool) {
        v.push(Fam { t, fam: "excluded-word" });
    }
    for t in nullable_beside_loop_family(&pool) {
        v.push(Fam { t, fam: "nullable-beside-loop" });
    }
    for t in redundant_loop_difference_family(&pool) {
        v.push(Fam { t, fam: "redundant-loop-difference" });
    }
    for (i, t) in common_factor_family(&pool).into_iter().enumerate() {
        if a.thorough() || i % 2 == (a.seed as usize) % 2 {
            v.push(Fam { t, fam: "common-factor" });
        }
    }
    for t in many_classes_family() {
        v.push(Fam { t, fam: "many-classes" });
    }
    for (i, t) in landmark_range_family().into_iter().enumerate() {
        if a.thorough() || i % 3 == (a.seed as usize) % 3 {
            v.push(Fam { t, fam: "landmark-ranges" });
        }
    }
    for (i, t) in complement_inside_family(&pool).into_iter().enumerate() {
        if a.thorough() || i % 2 == (a.seed as usize) % 2 || i < 285 {
            v.push(Fam { t, fam: "complement-inside" });
        }
    }
    // construction programs enumerated by TLC (MC_Terms), if the orchestrator generated some
    if let Some(i) = a.rest.iter().position(|x| x == "--terms") {
        let text = std::fs::read_to_string(&a.rest[i + 1]).expect("terms file");
        for line in text.lines().filter(|l| !l.trim().is_empty()) {
            let j: Value = serde_json::from_str(line).expect("term json");
            v.push(Fam { t: crate::manager::t_from_json(&j), fam: "tlc-generated" });
        }
    }
    for (i, t) in literal_family(&pool).into_iter().enumerate() {
        if a.thorough() || i % 2 == (a.seed as usize) % 2 {
            v.push(Fam { t, fam: "literal-like" });
        }
    }
    for _ in 0..a.sz(500, 8000) {
        v.push(Fam { t: random_shared_term(rng, &pool), fam: "random" });
    }
    let nrand = a.sz(700, 12000);
    for i in 0..nrand {
        let d = 2 + (i % 4);
        let p = if i % 3 == 0 { &pool2 } else { &pool };
        v.push(Fam { t: random_term(rng, d, p), fam: "random" });
    }
    v
}

/// terms with more derivatives than this are left out of the drivers that compile or search them
/// without a bound (a random term can have astronomically many derivatives)
pub const DERIV_LIMIT: usize = 1500;
pub fn few_derivatives(m: &mut ReManager, e: RegLan) -> bool {
    m.iter_derivatives(e).take(DERIV_LIMIT + 1).count() <= DERIV_LIMIT
}

fn words_for(t: &T, rng: &mut Rng, maxlen: usize, extra_random: usize) -> Vec<Vec<u32>> {
    let mut ends = vec![];
    t.ends(&mut ends);
    let mut letters: BTreeSet<u32> = ends.into_iter().filter(|&x| x <= MAX_CHAR).collect();
    if letters.is_empty() {
        letters.insert(97);
    }
    // at most three letters for the exhaustive part: prefer interval starts
    let ls: Vec<u32> = letters.iter().cloned().collect();
    let pick: Vec<u32> = if ls.len() <= 3 {
        ls.clone()
    } else {
        let mut p = vec![ls[0], ls[ls.len() / 2], ls[ls.len() - 1]];
        p.dedup();
        p
    };
    let mut words: Vec<Vec<u32>> = vec![vec![]];
    let mut frontier: Vec<Vec<u32>> = vec![vec![]];
    for _ in 0..maxlen {
        let mut next = vec![];
        for w in &frontier {
            for &c in &pick {
                let mut x = w.clone();
                x.push(c);
                next.push(x);
            }
        }
        words.extend(next.iter().cloned());
        frontier = next;
    }
    // counting needs length: for terms with loops, the powers of the first letter up to 26
    if matches!(t, T::Loop(..) | T::Pow(..) | T::SmtLoop(..) | T::Star(..) | T::Plus(..)) && t.children().iter().any(|c| c.has_loop()) && t.cost() <= 200 {
        let c = pick[0];
        for n in 4..=13 {
            words.push(vec![c; n]);
        }
    }
    for _ in 0..extra_random {
        let n = rng.range(1, 8) as usize;
        words.push((0..n).map(|_| *rng.pick(&ls)).collect());
    }
    words
}

fn base_case(id: usize, f: &Fam, t: &T) -> Map<String, Value> {
    let mut m = Map::new();
    m.insert("id".into(), json!(id));
    m.insert("fam".into(), json!(f.fam));
    m.insert("rootop".into(), json!(t.op()));
    m.insert("ast".into(), t.json());
    m
}

fn panic_case(id: usize, f: &Fam, what: &str, msg: &str) -> Value {
    let mut m = base_case(id, f, &f.t);
    m.insert("op".into(), json!("panic"));
    m.insert("where".into(), json!(what));
    m.insert("msg".into(), json!(msg));
    Value::Object(m)
}

/// C01: derivative-graph product cases + bounded membership through both API surfaces
pub fn drive_c01(a: &Args) {
    let mut rng = Rng::new(a.seed);
    let fams = families(a, &mut rng);
    let mut prod = Out::create(&a.out, "c01_products.ndjson");
    let mut mem = Out::create(&a.out, "c01_mem.ndjson");
    let mut mgr = ReManager::new();
    let mut smt_jobs: Vec<(usize, usize)> = vec![];
    for (id, f) in fams.iter().enumerate() {
        // a fresh manager every 40 terms; in between the manager is "dirty" with earlier terms
        if id % 40 == 0 || (f.fam == "adjacent-ranges" || f.fam == "fresh-manager") {
            // (creation order matters for that family: every term gets a fresh manager)
            mgr = ReManager::new();
        }
        let mut ends = vec![];
        f.t.ends(&mut ends);
        let words = words_for(&f.t, &mut rng, 3, 6);
        let r = guarded(|| {
            let e = f.t.build(&mut mgr);
            let g = dgraph(&mut mgr, e, &ends, &[]);
            let res: Vec<bool> = words
                .iter()
                .map(|w| mgr.str_in_re(&SmtString::from(w.clone()), e))
                .collect();
            (e, g, res)
        });
        match r {
            Ok((e, g, res)) => {
                let mut m = base_case(id, f, &f.t);
                let explore = f.t.cost() <= COST_LIMIT && g.nodes.len() <= 60;
                m.insert("op".into(), json!(if explore { "dgraph" } else { "dgraph_skipped" }));
                g.json_fields(&mut m);
                m.insert("roots".into(), json!([{"w": [], "s": g.node_of(e), "tag": "C01:language"}]));
                m.insert("nullable".into(), json!(e.nullable));
                prod.emit(Value::Object(m));
                let mut m = base_case(id, f, &f.t);
                m.insert("op".into(), json!("mem"));
                m.insert("via".into(), json!("manager"));
                m.insert("nullable".into(), json!(e.nullable));
                m.insert("words".into(), json!(words));
                m.insert("res".into(), json!(res));
                mem.emit(Value::Object(m));
            }
            Err(msg) => {
                prod.emit(panic_case(id, f, "build/dgraph/str_in_re", &msg));
                mgr = ReManager::new();
            }
        }
        if (id % 2 == 0 || a.thorough()) && !f.t.has_quot() {
            smt_jobs.push((id, smt_jobs.len()));
        }
    }
    // several managers alive at once, used alternately (and a wrapper thread running concurrently): managers are
    // independent - nothing may be shared between them
    {
        let picks: Vec<usize> = (0..fams.len()).filter(|i| i % 5 == (a.seed as usize) % 5 && !fams[*i].t.has_quot() && fams[*i].t.cost() <= COST_LIMIT).collect();
        let bg_terms: Vec<T> = picks.iter().map(|&i| fams[i].t.smt_form()).collect();
        let bg = std::thread::spawn(move || {
            // concurrent use of the thread-local manager of another thread
            let mut n = 0usize;
            for t in bg_terms {
                if let Ok(e) = guarded(|| t.build_smt()) {
                    n += e.nullable as usize;
                }
            }
            n
        });
        let mut inter = Out::create(&a.out, "c07_interleaved.ndjson");
        let (mut ma, mut mb) = (ReManager::new(), ReManager::new());
        for pair in picks.chunks(2) {
            if pair.len() < 2 {
                break;
            }
            let (fa, fb) = (&fams[pair[0]], &fams[pair[1]]);
            let (wa, wb) = (words_for(&fa.t, &mut rng, 2, 4), words_for(&fb.t, &mut rng, 2, 4));
            let r = guarded(|| {
                for c in fa.t.children() {
                    let _ = c.build(&mut ma);
                }
                for c in fb.t.children() {
                    let _ = c.build(&mut mb);
                }
                let ea = fa.t.build(&mut ma);
                let eb = fb.t.build(&mut mb);
                // the other term in the other manager as well: same construction, two stores
                let eb_in_a = fb.t.build(&mut ma);
                let mut ra = vec![];
                let mut rb = vec![];
                let mut rba = vec![];
                for k in 0..wa.len().max(wb.len()) {
                    if k < wa.len() {
                        ra.push(ma.str_in_re(&SmtString::from(wa[k].clone()), ea));
                    }
                    if k < wb.len() {
                        rb.push(mb.str_in_re(&SmtString::from(wb[k].clone()), eb));
                        rba.push(ma.str_in_re(&SmtString::from(wb[k].clone()), eb_in_a));
                    }
                }
                (ea.nullable, eb.nullable, eb_in_a.nullable, ra, rb, rba)
            });
            match r {
                Ok((na, nb, nba, ra, rb, rba)) => {
                    for (f, n, w, res) in [(fa, na, &wa, ra), (fb, nb, &wb, rb), (fb, nba, &wb, rba)] {
                        let mut m = base_case(pair[0], f, &f.t);
                        m.insert("op".into(), json!("mem"));
                        m.insert("via".into(), json!("manager"));
                        m.insert("interleaved".into(), json!(true));
                        m.insert("nullable".into(), json!(n));
                        m.insert("words".into(), json!(w));
                        m.insert("res".into(), json!(res));
                        mem.emit(Value::Object(m.clone()));
                        inter.emit(Value::Object(m));
                    }
                }
                Err(msg) => {
                    inter.emit(panic_case(pair[0], fa, "C07:two_managers_interleaved", &msg));
                    mem.emit(panic_case(pair[0], fa, "C07:two_managers_interleaved", &msg));
                    ma = ReManager::new();
                    mb = ReManager::new();
                }
            }
        }
        let _ = bg.join();
        inter.finish();
    }
    // the SMT-LIB-named wrappers: thread-local manager.  One long-lived thread (dirty manager)
    // for even jobs, a fresh thread (fresh manager) per chunk of 25 for odd jobs.
    let seed = a.seed;
    let run_jobs = |jobs: Vec<usize>, fams: &Vec<Fam>| -> Vec<Value> {
        let items: Vec<(usize, T, &'static str)> = jobs.iter().map(|&i| (i, fams[i].t.clone(), fams[i].fam)).collect();
        std::thread::spawn(move || {
            let mut rng = Rng::new(seed ^ 0x5151);
            let mut out = vec![];
            for (id, t, fam) in items {
                let st = t.smt_form();
                let words = words_for(&st, &mut rng, 3, 6);
                let f = Fam { t: st.clone(), fam };
                let r = guarded(|| {
                    let e = st.build_smt();
                    let res: Vec<bool> = words
                        .iter()
                        .map(|w| smt::str_in_re(&SmtString::from(w.clone()), e))
                        .collect();
                    (e.nullable, res)
                });
                match r {
                    Ok((nullable, res)) => {
                        let mut m = base_case(id, &f, &st);
                        m.insert("op".into(), json!("mem"));
                        m.insert("via".into(), json!("smt"));
                        m.insert("nullable".into(), json!(nullable));
                        m.insert("words".into(), json!(words));
                        m.insert("res".into(), json!(res));
                        out.push(Value::Object(m));
                    }
                    Err(msg) => out.push(panic_case(id, &f, "wrappers", &msg)),
                }
            }
            out
        })
        .join()
        .expect("wrapper thread")
    };
    let even: Vec<usize> = smt_jobs.iter().filter(|(_, k)| k % 2 == 0).map(|(i, _)| *i).collect();
    let odd: Vec<usize> = smt_jobs.iter().filter(|(_, k)| k % 2 == 1).map(|(i, _)| *i).collect();
    for v in run_jobs(even, &fams) {
        mem.emit(v);
    }
    for chunk in odd.chunks(25) {
        for v in run_jobs(chunk.to_vec(), &fams) {
            mem.emit(v);
        }
    }
    let (np, nm) = (prod.finish(), mem.finish());
    println!("{{\"family\":\"c01\",\"terms\":{},\"products\":{},\"mem\":{}}}", fams.len(), np, nm);
}

/// C02: compiled automata (compile and try_compile/Some) as product cases with structure
pub fn drive_c02(a: &Args) {
    let mut rng = Rng::new(a.seed);
    let fams = families(a, &mut rng);
    let mut prod = Out::create(&a.out, "c02_products.ndjson");
    let mut mgr = ReManager::new();
    let full_every = if a.thorough() { 250 } else { 400 };
    for (id, f) in fams.iter().enumerate() {
        if id % 40 == 0 || (f.fam == "adjacent-ranges" || f.fam == "fresh-manager") {
            // (creation order matters for that family: every term gets a fresh manager)
            mgr = ReManager::new();
        }
        let mut ends = vec![];
        f.t.ends(&mut ends);
        let words = words_for(&f.t, &mut rng, 2, 4);
        let use_try = id % 3 == 1;
        let r = guarded(|| {
            let e = f.t.build(&mut mgr);
            if !few_derivatives(&mut mgr, e) {
                return None;
            }
            let aut = if use_try {
                // the bound is the number of derivatives, so that the Some branch is exercised
                let n = mgr.iter_derivatives(e).take(NODE_CAP).count();
                match mgr.try_compile(e, n) {
                    Some(x) => x,
                    None => return None,
                }
            } else {
                mgr.compile(e)
            };
            let extra = if id % full_every == 7 && aut.num_states() <= 12 { full_scan_reps(&aut) } else { vec![] };
            let full = !extra.is_empty();
            let d = dump_automaton(&aut, &ends, &extra);
            let acc: Vec<Value> = words
                .iter()
                .map(|w| {
                    let s = SmtString::from(w.clone());
                    let x = guarded(|| (aut.accepts(&s), aut.str_next(aut.initial_state(), &s).id() + 1));
                    match x {
                        Ok((b, t)) => json!({"w": w, "acc": b, "to": t}),
                        Err(_) => json!({"w": w, "acc": false, "to": 0}),
                    }
                })
                .collect();
            Some((d, acc, aut.num_states(), aut.num_final_states(), full))
        });
        match r {
            Ok(Some((d, acc, ns, nf, full))) => {
                let mut m = base_case(id, f, &f.t);
                let explore = f.t.cost() <= COST_LIMIT && ns <= 60;
                m.insert("op".into(), json!(if explore { "automaton" } else { "automaton_skipped" }));
                m.insert("via".into(), json!(if use_try { "try_compile" } else { "compile" }));
                d.json_fields(&mut m);
                m.insert("roots".into(), json!([{"w": [], "s": d.init, "tag": "C02:language"}]));
                m.insert("num_states".into(), json!(ns));
                m.insert("num_final".into(), json!(nf));
                m.insert("runs".into(), json!(acc));
                m.insert("fullscan".into(), json!(full));
                prod.emit(Value::Object(m));
            }
            Ok(None) => {
                let mut m = base_case(id, f, &f.t);
                m.insert("op".into(), json!("trynone"));
                prod.emit(Value::Object(m));
            }
            Err(msg) => {
                prod.emit(panic_case(id, f, "compile", &msg));
                mgr = ReManager::new();
            }
        }
    }
    let np = prod.finish();
    println!("{{\"family\":\"c02\",\"terms\":{},\"products\":{}}}", fams.len(), np);
}

#[allow(dead_code)]
pub fn unused(_: RegLan) {}

fn err_name(e: &aws_smt_strings::errors::Error) -> String {
    format!("err:{:?}", e)
}

/// shortest word (over reps) leading from node `from` to each node, by BFS over the dumped edges
fn paths(g: &Graph, from: usize) -> Vec<Option<Vec<u32>>> {
    let n = g.nodes.len();
    let mut p: Vec<Option<Vec<u32>>> = vec![None; n + 1];
    p[from] = Some(vec![]);
    let mut q = std::collections::VecDeque::new();
    q.push_back(from);
    while let Some(x) = q.pop_front() {
        for (j, &y) in g.delta[x - 1].iter().enumerate() {
            if y != 0 && p[y].is_none() {
                let mut w = p[x].clone().unwrap();
                w.push(g.reps[j]);
                p[y] = Some(w);
                q.push_back(y);
            }
        }
    }
    p
}

/// C03: class structure, class/set/str derivatives of the root and of a few of its derivatives
pub fn drive_c03(a: &Args) {
    use aws_smt_strings::character_sets::{CharSet, ClassId};
    let mut rng = Rng::new(a.seed);
    let fams = families(a, &mut rng);
    let mut prod = Out::create(&a.out, "c03_products.ndjson");
    let mut mgr = ReManager::new();
    let per_term_nodes = a.sz(3, 6);
    for (id, f) in fams.iter().enumerate() {
        if id % 40 == 0 || (f.fam == "adjacent-ranges" || f.fam == "fresh-manager") {
            // (creation order matters for that family: every term gets a fresh manager)
            mgr = ReManager::new();
        }
        let mut ends = vec![];
        f.t.ends(&mut ends);
        let words = words_for(&f.t, &mut rng, 2, 3);
        let r = guarded(|| {
            let e = f.t.build(&mut mgr);
            let g = dgraph(&mut mgr, e, &ends, &[]);
            let root = g.node_of(e);
            let pth = paths(&g, root);
            let mut cls = vec![];
            let upto = g.nodes.len().min(per_term_nodes);
            for k in 1..=upto {
                let node = g.nodes[k - 1];
                let path = match &pth[k] {
                    Some(p) => p.clone(),
                    None => continue,
                };
                let rs = ranges_of(node.char_ranges());
                let ids: Vec<ClassId> = node.class_ids().collect();
                let mut cderiv = vec![];
                for &cid in &ids {
                    let r = guarded(|| mgr.class_derivative(node, cid));
                    cderiv.push(match r {
                        Ok(Ok(d)) => json!({"cid": cid_json(cid), "res": "ok", "s": g.node_of(d)}),
                        Ok(Err(e)) => json!({"cid": cid_json(cid), "res": err_name(&e), "s": 0}),
                        Err(_) => json!({"cid": cid_json(cid), "res": "panic", "s": 0}),
                    });
                }
                let n = rs.len();
                let mut bad_ids = vec![ClassId::Interval(n), ClassId::Interval(n + 7)];
                if node.empty_complement() {
                    bad_ids.push(ClassId::Complement);
                }
                let mut bad = vec![];
                for cid in bad_ids {
                    let r = guarded(|| mgr.class_derivative(node, cid));
                    let r2 = guarded(|| mgr.start_class(node, cid));
                    let name = |x: Result<Result<(), aws_smt_strings::errors::Error>, String>| match x {
                        Ok(Ok(())) => "ok".to_string(),
                        Ok(Err(e)) => err_name(&e),
                        Err(_) => "panic".to_string(),
                    };
                    bad.push(json!({"cid": cid_json(cid),
                        "res": name(r.map(|x| x.map(|_| ()))),
                        "start_class": name(r2.map(|x| x.map(|_| ()))),
                        "valid": node.valid_class_id(cid)}));
                }
                // sets [a,b] relative to the class boundaries
                let mut pts: BTreeSet<u32> = BTreeSet::new();
                pts.insert(0);
                pts.insert(MAX_CHAR);
                for &(lo, hi) in &rs {
                    for x in [lo.saturating_sub(1), lo, hi, (hi + 1).min(MAX_CHAR)] {
                        pts.insert(x);
                    }
                }
                let mut pts: Vec<u32> = pts.into_iter().collect();
                while pts.len() > 9 {
                    let i = rng.below(pts.len() as u64) as usize;
                    pts.remove(i);
                }
                let mut setd = vec![];
                for (i, &x) in pts.iter().enumerate() {
                    for &y in &pts[i..] {
                        let set = CharSet::range(x, y);
                        let r = guarded(|| mgr.set_derivative(node, &set));
                        setd.push(match r {
                            Ok(Ok(d)) => json!({"a": x, "b": y, "res": "ok", "s": g.node_of(d)}),
                            Ok(Err(e)) => json!({"a": x, "b": y, "res": err_name(&e), "s": 0}),
                            Err(_) => json!({"a": x, "b": y, "res": "panic", "s": 0}),
                        });
                    }
                }
                let rj: Vec<Value> = rs.iter().map(|&(x, y)| json!([x, y])).collect();
                let idj: Vec<i64> = ids.iter().map(|&c| cid_json(c)).collect();
                cls.push(json!({"node": k, "path": path, "ranges": rj, "ids": idj,
                    "empty_complement": node.empty_complement(), "nclasses": node.num_deriv_classes(),
                    "cderiv": cderiv, "bad": bad, "setd": setd}));
            }
            let mut roots = vec![json!({"w": [], "s": root, "tag": "C03:char_derivative"})];
            for w in &words {
                let d = mgr.str_derivative(e, &SmtString::from(w.clone()));
                // extra nodes reached only by str_derivative would be a closure failure; node_of gives 0
                roots.push(json!({"w": w, "s": g.node_of(d), "tag": "C03:str_derivative"}));
            }
            (g, cls, roots)
        });
        match r {
            Ok((g, cls, roots)) => {
                let mut m = base_case(id, f, &f.t);
                let explore = f.t.cost() <= COST_LIMIT && g.nodes.len() <= 60;
                m.insert("op".into(), json!(if explore { "dgraph3" } else { "dgraph_skipped" }));
                g.json_fields(&mut m);
                m.insert("roots".into(), json!(roots));
                m.insert("cls".into(), json!(cls));
                prod.emit(Value::Object(m));
            }
            Err(msg) => {
                prod.emit(panic_case(id, f, "build/derivatives", &msg));
                mgr = ReManager::new();
            }
        }
    }
    let np = prod.finish();
    println!("{{\"family\":\"c03\",\"terms\":{},\"products\":{}}}", fams.len(), np);
}

fn explore_ok(t: &T) -> bool {
    t.cost() <= COST_LIMIT
}

/// terms with larger loop counters so that the number of derivatives varies widely (C19)
fn counter_family(pool: &Pool, rng: &mut Rng, n: usize) -> Vec<T> {
    let mut v = vec![];
    let a = T::Chr(pool.a);
    let ab = T::Rng(pool.a, pool.b);
    for k in [1u32, 2, 5, 9, 17, 40] {
        v.push(T::Pow(Box::new(a.clone()), k));
        v.push(T::Loop(Box::new(ab.clone()), k, Some(k + 3)));
        v.push(T::Loop(Box::new(ab.clone()), k, None));
        v.push(T::Cat2(Box::new(T::All), Box::new(T::Cat2(Box::new(a.clone()), Box::new(T::Pow(Box::new(T::AllChar), k.min(6)))))));
        v.push(T::SmtLoop(Box::new(T::Str(vec![pool.a, pool.b])), k / 2, k));
    }
    for _ in 0..n {
        let i = rng.range(0, 12);
        let body = random_term(rng, 1, pool);
        v.push(T::Loop(Box::new(body), i, if rng.coin(1, 3) { None } else { Some(i + rng.range(0, 10)) }));
    }
    v
}

/// C05: emptiness and witnesses
pub fn drive_c05(a: &Args) {
    let mut rng = Rng::new(a.seed);
    let mut fams = families(a, &mut rng);
    // the semantically-empty family again under a second layout, and on top of random operands
    let pool2 = Pool::new(&mut rng, false);
    for t in semantically_empty_family(&pool2) {
        fams.push(Fam { t, fam: "sem-empty" });
    }
    let mut out = Out::create(&a.out, "c05_empty.ndjson");
    let mut mgr = ReManager::new();
    for (id, f) in fams.iter().enumerate() {
        if id % 40 == 0 || (f.fam == "adjacent-ranges" || f.fam == "fresh-manager") {
            // (creation order matters for that family: every term gets a fresh manager)
            mgr = ReManager::new();
        }
        let r = guarded(|| {
            let e = f.t.build(&mut mgr);
            if !few_derivatives(&mut mgr, e) {
                return None;
            }
            let order_first = id % 2 == 0;
            // both orders of the two queries (cache effects)
            let (empty, w) = if order_first {
                let x = mgr.is_empty_re(e);
                (x, mgr.get_string(e))
            } else {
                let w = mgr.get_string(e);
                (mgr.is_empty_re(e), w)
            };
            Some(match w {
                None => (empty, false, vec![], false, false, true, e.is_empty()),
                Some(s) => {
                    let inre = mgr.str_in_re(&s, e);
                    let acc = mgr.compile(e).accepts(&s);
                    let v: Vec<u32> = s.iter().cloned().collect();
                    (empty, true, v, inre, acc, s.is_good(), e.is_empty())
                }
            })
        });
        match r {
            Ok(None) => {}
            Ok(Some((empty, has_w, w, inre, acc, good, syn_empty))) => {
                let mut m = base_case(id, f, &f.t);
                m.insert("op".into(), json!("empty"));
                m.insert("exact".into(), json!(explore_ok(&f.t)));
                m.insert("empty".into(), json!(empty));
                m.insert("syn_empty".into(), json!(syn_empty));
                m.insert("has_w".into(), json!(has_w));
                m.insert("w_check".into(), json!(explore_ok(&f.t) || w.len() <= 24));
                m.insert("w".into(), json!(w));
                m.insert("w_in_re".into(), json!(inre));
                m.insert("w_acc".into(), json!(acc));
                m.insert("w_good".into(), json!(good));
                out.emit(Value::Object(m));
            }
            Err(msg) => {
                out.emit(panic_case(id, f, "is_empty_re/get_string", &msg));
                mgr = ReManager::new();
            }
        }
    }
    // (A) emptiness of DERIVATIVES, asked after the root was searched on the same manager
    let mut next_id = fams.len();
    let mut nderiv = 0;
    let mut mgr = ReManager::new();
    for (id, f) in fams.iter().enumerate() {
        if id % 2 != (a.seed as usize) % 2 || !explore_ok(&f.t) || f.t.has_quot() {
            continue;
        }
        if id % 40 <= 1 {
            mgr = ReManager::new();
        }
        let mut ends = vec![];
        f.t.ends(&mut ends);
        let mut letters: Vec<u32> = ends.into_iter().filter(|&x| x <= MAX_CHAR).collect();
        letters.sort();
        letters.dedup();
        if letters.is_empty() {
            letters.push(0);
        }
        let mut words: Vec<Vec<u32>> = vec![];
        for _ in 0..3 {
            let n = 1 + rng.below(2) as usize;
            words.push((0..n).map(|_| *rng.pick(&letters)).collect());
        }
        let root = guarded(|| {
            let e = f.t.build(&mut mgr);
            if !few_derivatives(&mut mgr, e) {
                return None;
            }
            let _ = mgr.is_empty_re(e);
            Some(e)
        });
        let e = match root {
            Ok(Some(e)) => e,
            _ => {
                mgr = ReManager::new();
                continue;
            }
        };
        for w in words {
            let mut t = f.t.clone();
            for &c in &w {
                t = T::Quot(c, Box::new(t));
            }
            let df = Fam { t: t.clone(), fam: "derivative-after-root" };
            let r = guarded(|| {
                let d = mgr.str_derivative(e, &SmtString::from(w.clone()));
                empty_queries(&mut mgr, d, nderiv % 2 == 0)
            });
            nderiv += 1;
            next_id += 1;
            match r {
                Ok(q) => out.emit(empty_record(next_id, &df, q)),
                Err(msg) => {
                    out.emit(panic_case(next_id, &df, "is_empty_re/get_string", &msg));
                    mgr = ReManager::new();
                    break;
                }
            }
        }
    }
    // (B) histories of emptiness queries on one manager: semantically empty / universal terms and their
    // complements created next to each other, queried in a random order, then all of them once more
    let fixed = Pool { a: 97, b: 98, c: 99 };
    let se = semantically_empty_family(&fixed);
    let rounds = a.sz(250, 4000);
    let mut nhist = 0;
    for _ in 0..rounds {
        let mut mgr = ReManager::new();
        let k = 3 + rng.below(3) as usize;
        let mut chosen: Vec<T> = vec![];
        for _ in 0..k {
            let x = rng.pick(&se).clone();
            chosen.push(match rng.below(4) {
                0 => T::Not(Box::new(x)),
                1 => match x {
                    // the operand of a complement: the base term itself
                    T::Not(y) => *y,
                    other => other,
                },
                _ => x,
            });
        }
        let r = guarded(|| {
            // sub-terms first, so that the roots are allocated next to each other
            for t in &chosen {
                for c in t.children() {
                    let _ = c.build(&mut mgr);
                }
            }
            let roots: Vec<RegLan> = chosen.iter().map(|t| t.build(&mut mgr)).collect();
            let mut items: Vec<(T, RegLan)> = vec![];
            for (t, &e) in chosen.iter().zip(roots.iter()) {
                items.push((t.clone(), e));
                items.push((T::Not(Box::new(t.clone())), mgr.complement(e)));
            }
            let mut recs = vec![];
            for pass in 0..2 {
                let mut order: Vec<usize> = (0..items.len()).collect();
                for i in (1..order.len()).rev() {
                    let j = rng.below(i as u64 + 1) as usize;
                    order.swap(i, j);
                }
                for i in order {
                    let q = empty_queries(&mut mgr, items[i].1, (i + pass) % 2 == 0);
                    recs.push((items[i].0.clone(), q));
                }
            }
            recs
        });
        match r {
            Ok(recs) => {
                for (t, q) in recs {
                    next_id += 1;
                    nhist += 1;
                    out.emit(empty_record(next_id, &Fam { t, fam: "emptiness-history" }, q));
                }
            }
            Err(msg) => {
                next_id += 1;
                out.emit(panic_case(next_id, &Fam { t: chosen[0].clone(), fam: "emptiness-history" }, "is_empty_re/get_string", &msg));
            }
        }
    }
    let n = out.finish();
    println!("{{\"family\":\"c05\",\"terms\":{},\"events\":{},\"derivative_queries\":{},\"history_queries\":{}}}", fams.len(), n, nderiv, nhist);
}

type EmptyQ = (bool, bool, Vec<u32>, bool, bool, bool, bool);
/// is_empty_re and get_string (in either order) and what the witness is worth
fn empty_queries(mgr: &mut ReManager, e: RegLan, order_first: bool) -> EmptyQ {
    let (empty, w) = if order_first {
        let x = mgr.is_empty_re(e);
        (x, mgr.get_string(e))
    } else {
        let w = mgr.get_string(e);
        (mgr.is_empty_re(e), w)
    };
    match w {
        None => (empty, false, vec![], false, false, true, e.is_empty()),
        Some(s) => {
            let inre = mgr.str_in_re(&s, e);
            let acc = mgr.compile(e).accepts(&s);
            let v: Vec<u32> = s.iter().cloned().collect();
            (empty, true, v, inre, acc, s.is_good(), e.is_empty())
        }
    }
}

fn empty_record(id: usize, f: &Fam, q: EmptyQ) -> Value {
    let (empty, has_w, w, inre, acc, good, syn_empty) = q;
    let mut m = base_case(id, f, &f.t);
    m.insert("op".into(), json!("empty"));
    m.insert("exact".into(), json!(explore_ok(&f.t)));
    m.insert("empty".into(), json!(empty));
    m.insert("syn_empty".into(), json!(syn_empty));
    m.insert("has_w".into(), json!(has_w));
    // membership of a long witness in a costly term is too expensive for the residual automaton: the other three
    // witness facts (str_in_re, accepted by the compiled automaton, well-formed) are still judged
    m.insert("w_check".into(), json!(explore_ok(&f.t) || w.len() <= 24));
    m.insert("w".into(), json!(w));
    m.insert("w_in_re".into(), json!(inre));
    m.insert("w_acc".into(), json!(acc));
    m.insert("w_good".into(), json!(good));
    Value::Object(m)
}

/// C18: start_char / start_class
pub fn drive_c18(a: &Args) {
    use aws_smt_strings::character_sets::ClassId;
    let mut rng = Rng::new(a.seed);
    let mut fams = families(a, &mut rng);
    let pool2 = Pool::new(&mut rng, false);
    for t in semantically_empty_family(&pool2) {
        fams.push(Fam { t, fam: "sem-empty" });
    }
    let mut out = Out::create(&a.out, "c18_start.ndjson");
    let mut mgr = ReManager::new();
    for (id, f) in fams.iter().enumerate() {
        if id % 40 == 0 || (f.fam == "adjacent-ranges" || f.fam == "fresh-manager") {
            // (creation order matters for that family: every term gets a fresh manager)
            mgr = ReManager::new();
        }
        if !explore_ok(&f.t) {
            continue;
        }
        let mut ends = vec![];
        f.t.ends(&mut ends);
        let r = guarded(|| {
            let e = f.t.build(&mut mgr);
            if !few_derivatives(&mut mgr, e) {
                return None;
            }
            let rs = ranges_of(e.char_ranges());
            let mut pts: BTreeSet<u32> = ends.iter().cloned().filter(|&x| x <= MAX_CHAR).collect();
            pts.insert(0);
            pts.insert(MAX_CHAR);
            add_range_reps(&mut pts, &rs);
            let chars: Vec<u32> = pts.into_iter().collect();
            // class queries first on even ids, char queries first on odd ids
            let mut classes = vec![];
            let mut res = vec![];
            let do_classes = |mgr: &mut ReManager, classes: &mut Vec<Value>| {
                let n = rs.len();
                let mut ids: Vec<ClassId> = e.class_ids().collect();
                ids.push(ClassId::Interval(n));
                ids.push(ClassId::Interval(n + 3));
                if e.empty_complement() {
                    ids.push(ClassId::Complement);
                }
                for cid in ids {
                    let x = guarded(|| mgr.start_class(e, cid));
                    classes.push(json!({"cid": cid_json(cid), "valid": e.valid_class_id(cid), "res": match x {
                        Ok(Ok(b)) => format!("ok:{}", b),
                        Ok(Err(er)) => err_name(&er),
                        Err(_) => "panic".to_string(),
                    }}));
                }
            };
            if id % 2 == 0 {
                do_classes(&mut mgr, &mut classes);
            }
            for &c in &chars {
                res.push(mgr.start_char(e, c));
            }
            if id % 2 == 1 {
                do_classes(&mut mgr, &mut classes);
            }
            Some((rs, chars, res, classes))
        });
        match r {
            Ok(None) => {}
            Ok(Some((rs, chars, res, classes))) => {
                let mut m = base_case(id, f, &f.t);
                m.insert("op".into(), json!("start"));
                let rj: Vec<Value> = rs.iter().map(|&(x, y)| json!([x, y])).collect();
                m.insert("ranges".into(), json!(rj));
                m.insert("chars".into(), json!(chars));
                m.insert("res".into(), json!(res));
                m.insert("classes".into(), json!(classes));
                out.emit(Value::Object(m));
            }
            Err(msg) => {
                out.emit(panic_case(id, f, "start_char/start_class", &msg));
                mgr = ReManager::new();
            }
        }
    }
    let n = out.finish();
    println!("{{\"family\":\"c18\",\"terms\":{},\"events\":{}}}", fams.len(), n);
}

/// far above any legitimate number of derivatives for the generated sizes (DESIGN 5 C19)
pub const ITER_CAP: usize = 200_000;

/// C19: iter_derivatives closure and the try_compile bound
pub fn drive_c19(a: &Args) {
    let mut rng = Rng::new(a.seed);
    let mut fams = families(a, &mut rng);
    let pool = Pool::new(&mut rng, true);
    for t in counter_family(&pool, &mut rng, a.sz(60, 600)) {
        fams.push(Fam { t, fam: "counters" });
    }
    let mut out = Out::create(&a.out, "c19_closure.ndjson");
    let mut mgr = ReManager::new();
    for (id, f) in fams.iter().enumerate() {
        if id % 40 == 0 || (f.fam == "adjacent-ranges" || f.fam == "fresh-manager") {
            // (creation order matters for that family: every term gets a fresh manager)
            mgr = ReManager::new();
        }
        let mut ends = vec![];
        f.t.ends(&mut ends);
        let r = guarded(|| {
            let e = f.t.build(&mut mgr);
            // the list as the iterator yields it (addresses), twice: must be stable
            let l1: Vec<usize> = mgr.iter_derivatives(e).take(ITER_CAP + 1).map(|r| addr(r)).collect();
            let l2: Vec<usize> = mgr.iter_derivatives(e).take(ITER_CAP + 1).map(|r| addr(r)).collect();
            let big = l1.len() > 1500;
            let g = if big {
                // too large to dump: counts only (closedness is not examined for this case)
                Graph { nodes: vec![], n_iter: l1.len(), capped: false, reps: vec![], delta: vec![], index: Default::default() }
            } else {
                dgraph(&mut mgr, e, &ends, &[])
            };
            let n = l1.len();
            let mut distinct = l1.clone();
            distinct.sort();
            distinct.dedup();
            let mut tries = vec![];
            let mut bounds: Vec<(&str, usize)> = vec![("0", 0), ("L-1", n.saturating_sub(1)), ("L", n), ("L+1", n + 1), ("max", usize::MAX)];
            // bounds around the powers of two where a narrower counter would wrap (every one of them is >= n)
            if n < 60000 && n <= 300 {
                let p16 = 1usize << 16;
                let p32 = 1usize << 32;
                bounds.extend([("big:2^16", p16), ("big:2^16+L-1", p16 + n - 1), ("big:2^32-1", p32 - 1), ("big:2^32", p32),
                    ("big:2^32+1", p32 + 1), ("big:2^32+L-1", p32 + n - 1), ("big:2^32+L", p32 + n), ("big:3*2^32+2", 3 * p32 + 2),
                    ("big:2^40", 1usize << 40), ("big:max-1", usize::MAX - 1)]);
            }
            let capped = n > 5000; // bounds and state counts are only exercised on terms of moderate size
            for (name, b) in bounds {
                if capped && name != "0" {
                    continue; // an unbounded compile of a term this large is not attempted
                }
                let x = guarded(|| mgr.try_compile(e, b).map(|a| a.num_states()));
                tries.push(match x {
                    Ok(Some(ns)) => json!({"n": name, "res": "some", "ns": ns}),
                    Ok(None) => json!({"n": name, "res": "none", "ns": 0}),
                    Err(_) => json!({"n": name, "res": "panic", "ns": 0}),
                });
            }
            let cns = if capped { 0 } else { mgr.compile(e).num_states() };
            (l1 == l2, n, distinct.len(), l1.first().cloned() == Some(addr(e)), g, tries, cns)
        });
        match r {
            Ok((stable, n, ndistinct, first_root, g, tries, cns)) => {
                let mut m = base_case(id, f, &f.t);
                m.insert("op".into(), json!(if n > 5000 { "closure_capped" } else if g.nodes.is_empty() { "closure_big" } else { "closure" }));
                m.insert("stable".into(), json!(stable));
                m.insert("len".into(), json!(n));
                m.insert("distinct".into(), json!(ndistinct));
                m.insert("first_is_root".into(), json!(first_root));
                // reaching the cap on a seeded random term proves nothing (such a term may legitimately have
                // that many derivatives); on the enumerated families it means the enumeration does not terminate
                m.insert("terminated".into(), json!(n <= ITER_CAP || f.fam == "random"));
                m.insert("niter".into(), json!(g.n_iter));
                m.insert("nnodes".into(), json!(g.nodes.len()));
                m.insert("nreps".into(), json!(g.reps.len()));
                m.insert("delta".into(), json!(g.delta));
                m.insert("tries".into(), json!(tries));
                m.insert("compile_ns".into(), json!(cns));
                out.emit(Value::Object(m));
            }
            Err(msg) => {
                out.emit(panic_case(id, f, "iter_derivatives/try_compile", &msg));
                mgr = ReManager::new();
            }
        }
    }
    let n = out.finish();
    println!("{{\"family\":\"c19\",\"terms\":{},\"events\":{}}}", fams.len(), n);
}

/// C16: included_in on pattern pairs and on sub-term pairs
pub fn drive_c16(a: &Args) {
    let mut rng = Rng::new(a.seed);
    let pool = Pool::new(&mut rng, true);
    let (ca, cb) = (T::Chr(pool.a), T::Chr(pool.b));
    let bx = |t: &T| Box::new(t.clone());
    let factors: Vec<T> = vec![
        ca.clone(),
        cb.clone(),
        T::Rng(pool.a, pool.b),
        T::AllChar,
        T::All,
        T::Star(bx(&ca)),
        T::Plus(bx(&ca)),
        T::Opt(bx(&ca)),
        T::Not(bx(&ca)),
        T::Alt2(bx(&ca), bx(&cb)),
        T::Eps,
        T::Loop(bx(&T::Rng(pool.a, pool.b)), 1, Some(2)),
        T::Loop(bx(&T::AllChar), 2, None),
        T::Star(bx(&T::Rng(pool.a, pool.c))),
    ];
    let pat = |rng: &mut Rng| -> T {
        let n = rng.range(1, 6) as usize;
        let v: Vec<T> = (0..n).map(|_| rng.pick(&factors).clone()).collect();
        if v.len() == 1 {
            v[0].clone()
        } else {
            T::CatL(v)
        }
    };
    let mut pairs: Vec<(T, T, &'static str)> = vec![];
    // all ordered pairs of single factors and of two-factor concatenations with a single factor
    for x in &factors {
        for y in &factors {
            pairs.push((x.clone(), y.clone(), "factor-pairs"));
        }
    }
    let npat = a.sz(2500, 40000);
    for i in 0..npat {
        let (x, y) = (pat(&mut rng), pat(&mut rng));
        let p = match i % 8 {
            0 => (T::Not(bx(&x)), T::Not(bx(&y))),
            1 => (x.clone(), T::Alt2(bx(&y), bx(&pat(&mut rng)))),
            2 => (T::And2(bx(&x), bx(&pat(&mut rng))), y.clone()),
            3 => (T::Alt2(bx(&x), bx(&pat(&mut rng))), y.clone()),
            4 => (x.clone(), T::And2(bx(&y), bx(&pat(&mut rng)))),
            _ => (x.clone(), y.clone()),
        };
        pairs.push((p.0, p.1, "patterns"));
    }
    // widening pairs: y is x with one factor replaced by something larger (likely true answers)
    for _ in 0..a.sz(1500, 20000) {
        let n = rng.range(1, 4) as usize;
        let v: Vec<T> = (0..n).map(|_| rng.pick(&factors).clone()).collect();
        let mut w = v.clone();
        let k = rng.below(n as u64) as usize;
        w[k] = match rng.below(5) {
            0 => T::All,
            1 => T::Star(bx(&v[k])),
            2 => T::Alt2(bx(&v[k]), bx(&cb)),
            3 => T::Opt(bx(&v[k])),
            _ => T::CatL(vec![T::All, v[k].clone(), T::All]),
        };
        let mk = |v: Vec<T>| if v.len() == 1 { v[0].clone() } else { T::CatL(v) };
        pairs.push((mk(v), mk(w), "widening"));
    }
    // rigid / flexible structure: v = w1 . all . w2 . all . w3 with rigid words wi of length <= 2 over {a,b}
    // (rigid prefix, interior rigid pattern, rigid suffix of every length 0..2) against rigid words
    // u of length <= 4 and against u = x . all . y
    {
        let letters = [pool.a, pool.b];
        let mut words: Vec<Vec<u32>> = vec![vec![]];
        let mut fr: Vec<Vec<u32>> = vec![vec![]];
        for _ in 0..4 {
            let mut nx = vec![];
            for w in &fr {
                for &c in &letters {
                    let mut x = w.clone();
                    x.push(c);
                    nx.push(x);
                }
            }
            words.extend(nx.iter().cloned());
            fr = nx;
        }
        let short: Vec<&Vec<u32>> = words.iter().filter(|w| w.len() <= 2).collect();
        let chars = |w: &Vec<u32>| -> Vec<T> { w.iter().map(|&c| T::Chr(c)).collect() };
        let mk = |parts: Vec<T>| -> T {
            if parts.is_empty() { T::Eps } else if parts.len() == 1 { parts[0].clone() } else { T::CatL(parts) }
        };
        let mut k = 0usize;
        for w1 in &short {
            for w2 in &short {
                for w3 in &short {
                    let mut v = chars(w1);
                    v.push(T::All);
                    v.extend(chars(w2));
                    v.push(T::All);
                    v.extend(chars(w3));
                    let vt = mk(v);
                    for u in &words {
                        k += 1;
                        if !a.thorough() && k % 3 != (a.seed as usize) % 3 {
                            continue;
                        }
                        pairs.push((mk(chars(u)), vt.clone(), "rigid-flexible"));
                        if u.len() >= 2 && k % 5 == 0 {
                            let mut uu = chars(&u[..1].to_vec());
                            uu.push(T::All);
                            uu.extend(chars(&u[1..].to_vec()));
                            pairs.push((mk(uu), vt.clone(), "rigid-flexible"));
                        }
                    }
                }
            }
        }
    }
    // two interior rigid runs: v = w1 . all . w2 . all . w3 . all . w4 (the runs w2, w3 may overlap in u)
    {
        let letters = [pool.a, pool.b];
        let mut words: Vec<Vec<u32>> = vec![vec![]];
        let mut fr: Vec<Vec<u32>> = vec![vec![]];
        for _ in 0..4 {
            let mut nx = vec![];
            for w in &fr {
                for &c in &letters {
                    let mut x = w.clone();
                    x.push(c);
                    nx.push(x);
                }
            }
            words.extend(nx.iter().cloned());
            fr = nx;
        }
        let edge: Vec<&Vec<u32>> = words.iter().filter(|w| w.len() <= 1).collect();
        let runs: Vec<&Vec<u32>> = words.iter().filter(|w| w.len() == 1 || w.len() == 2).collect();
        let chars = |w: &Vec<u32>| -> Vec<T> { w.iter().map(|&c| T::Chr(c)).collect() };
        let mk = |parts: Vec<T>| -> T {
            if parts.is_empty() { T::Eps } else if parts.len() == 1 { parts[0].clone() } else { T::CatL(parts) }
        };
        let mut k = 0usize;
        for w1 in &edge {
            for w2 in &runs {
                for w3 in &runs {
                    for w4 in &edge {
                        let mut v = chars(w1);
                        v.push(T::All);
                        v.extend(chars(w2));
                        v.push(T::All);
                        v.extend(chars(w3));
                        v.push(T::All);
                        v.extend(chars(w4));
                        let vt = mk(v);
                        for u in &words {
                            k += 1;
                            if !a.thorough() && k % 3 != (a.seed as usize) % 3 {
                                continue;
                            }
                            pairs.push((mk(chars(u)), vt.clone(), "two-rigid-runs"));
                        }
                    }
                }
            }
        }
    }
    // singleton languages built in different ways (the term of a string is not canonical: "aab" is a.(a.b) or
    // a^2.b): every pair denoting the same string, a sample of the others; plain, against the complement, both
    // complemented, against a union
    {
        let pieces: Vec<T> = vec![
            T::Chr(pool.a), T::Chr(pool.b), T::Str(vec![pool.a, pool.b]), T::Str(vec![pool.a, pool.a, pool.b]),
            T::Pow(bx(&T::Chr(pool.a)), 2), T::Pow(bx(&T::Str(vec![pool.a, pool.b])), 2), T::Str(vec![pool.a, pool.b, pool.a, pool.b]),
            T::Loop(bx(&T::Str(vec![pool.b, pool.a])), 2, Some(2)), T::Pow(bx(&T::Chr(pool.b)), 3), T::Str(vec![pool.a, pool.a]),
            T::Cat2(bx(&T::Cat2(bx(&ca), bx(&ca))), bx(&cb)), T::Cat2(bx(&ca), bx(&T::Cat2(bx(&ca), bx(&cb)))),
        ];
        let mut lits: Vec<T> = pieces.clone();
        for x in &pieces {
            for y in &pieces {
                lits.push(T::Cat2(bx(x), bx(y)));
            }
        }
        let mut k = 0usize;
        for x in &lits {
            for y in &lits {
                let same = literal_of(x).is_some() && literal_of(x) == literal_of(y);
                k += 1;
                if !same && k % 23 != (a.seed as usize) % 23 {
                    continue;
                }
                if !same && !a.thorough() && k % 2 == 0 {
                    continue;
                }
                pairs.push((x.clone(), T::Not(bx(y)), "singletons"));
                pairs.push((x.clone(), y.clone(), "singletons"));
                pairs.push((T::Not(bx(x)), T::Not(bx(y)), "singletons"));
                pairs.push((x.clone(), T::Alt2(bx(y), bx(&T::Pow(bx(&T::Chr(pool.c)), 2))), "singletons"));
            }
        }
    }
    // minimal lengths that are easy to get wrong: a region Sigma^[k,inf) / Sigma.Sigma+ / Sigma^k.all on the right, on the
    // left a slice whose shortest string is shorter than its syntax suggests (a nullable loop inside an
    // intersection, a loop of an optional, a union with a short arm)
    {
        let na = T::Not(bx(&ca));
        let deceptive: Vec<T> = vec![
            T::And2(bx(&T::Loop(bx(&na), 2, Some(2))), bx(&T::Not(bx(&T::Eps)))),
            T::And2(bx(&T::Star(bx(&T::Str(vec![pool.a, pool.b])))), bx(&T::Plus(bx(&T::AllChar)))),
            T::And2(bx(&T::Loop(bx(&T::Opt(bx(&ca))), 2, Some(3))), bx(&T::Not(bx(&T::Eps)))),
            T::Alt2(bx(&ca), bx(&T::Str(vec![pool.a, pool.b, pool.a]))),
            T::Loop(bx(&T::Alt2(bx(&ca), bx(&T::Str(vec![pool.a, pool.b])))), 1, Some(2)),
            T::And2(bx(&T::Loop(bx(&T::AllChar), 1, Some(3))), bx(&na)),
            cb.clone(),
        ];
        let regions: Vec<T> = vec![
            T::Cat2(bx(&T::AllChar), bx(&T::Plus(bx(&T::AllChar)))),
            T::Loop(bx(&T::AllChar), 2, None),
            T::Loop(bx(&T::AllChar), 3, None),
            T::Cat2(bx(&T::Pow(bx(&T::AllChar), 2)), bx(&T::All)),
            T::Plus(bx(&T::AllChar)),
            T::All,
        ];
        let c = T::Chr(pool.c);
        for x in &deceptive {
            for y in &regions {
                pairs.push((T::Cat2(bx(&c), bx(x)), T::Cat2(bx(&c), bx(y)), "min-length"));
                pairs.push((T::Cat2(bx(x), bx(&c)), T::Cat2(bx(y), bx(&c)), "min-length"));
                pairs.push((T::CatL(vec![c.clone(), x.clone(), c.clone()]), T::CatL(vec![c.clone(), y.clone(), c.clone()]), "min-length"));
                pairs.push((x.clone(), y.clone(), "min-length"));
            }
        }
    }
    // a loop against a NESTED loop over the same body (the iteration counts of the nested one have gaps whenever
    // it was not flattened), both directions
    {
        let bodies = [ca.clone(), T::Rng(pool.a, pool.b)];
        let simple: Vec<(u32, Option<u32>)> = vec![(1, Some(2)), (5, Some(5)), (2, Some(3)), (1, None), (4, Some(7)), (0, Some(1))];
        let inner: Vec<(u32, Option<u32>)> = vec![(2, Some(3)), (3, Some(4)), (2, Some(2))];
        let outer: Vec<(u32, Option<u32>)> = vec![(0, None), (1, None), (1, Some(2)), (2, Some(2))];
        for body in &bodies {
            for &(i, j) in &simple {
                for &(c, d) in &inner {
                    for &(e, f) in &outer {
                        let x = T::Loop(bx(body), i, j);
                        let y = T::Loop(bx(&T::Loop(bx(body), c, d)), e, f);
                        pairs.push((x.clone(), y.clone(), "loop-vs-nested-loop"));
                        pairs.push((y, x, "loop-vs-nested-loop"));
                    }
                }
            }
        }
    }
    // a rigid run of letters between / before / after Sigma* on the right; on the left the same run with ONE element
    // repeated (a power x^2, a loop x{2,3} or x{1,2}, or the letter written twice) at every position of the run
    {
        let letters = [pool.a, pool.b, pool.c];
        let mut runs: Vec<Vec<u32>> = vec![];
        for n in 2..=3usize {
            for code in 0..3usize.pow(n as u32) {
                let mut c = code;
                runs.push((0..n).map(|_| { let l = letters[c % 3]; c /= 3; l }).collect());
            }
        }
        for (ri, r) in runs.iter().enumerate() {
            let rigid: Vec<T> = r.iter().map(|&c| T::Chr(c)).collect();
            let vs: Vec<T> = vec![
                T::CatL([vec![T::All], rigid.clone(), vec![T::All]].concat()),
                T::CatL([rigid.clone(), vec![T::All]].concat()),
                T::CatL([vec![T::All], rigid.clone()].concat()),
            ];
            for p in 0..r.len() {
                let x = T::Chr(r[p]);
                let reps: Vec<T> = vec![T::Pow(bx(&x), 2), T::Loop(bx(&x), 2, Some(3)), T::Loop(bx(&x), 1, Some(2)), T::Str(vec![r[p], r[p]])];
                for (qi, q) in reps.iter().enumerate() {
                    if !a.thorough() && (ri + p + qi) % 2 != (a.seed as usize) % 2 {
                        continue;
                    }
                    let mut u = rigid.clone();
                    u[p] = q.clone();
                    // built as a list, and as (prefix string) . rest - the second way keeps the repeated letter a loop
                    let u1 = T::CatL(u.clone());
                    let u2 = if p + 1 < u.len() { T::Cat2(bx(&T::CatL(u[..=p].to_vec())), bx(&T::CatL(u[p + 1..].to_vec()))) } else { u1.clone() };
                    for v in &vs {
                        pairs.push((u1.clone(), v.clone(), "power-in-rigid-run"));
                        pairs.push((u2.clone(), v.clone(), "power-in-rigid-run"));
                    }
                }
            }
        }
    }
    // sub-term pairs of random programs
    for _ in 0..a.sz(150, 2500) {
        let t = random_term(&mut rng, 3, &pool);
        let mut subs = vec![];
        collect_subterms(&t, &mut subs);
        subs.truncate(6);
        for x in &subs {
            for y in &subs {
                pairs.push((x.clone(), y.clone(), "subterms"));
            }
        }
    }
    let mut out = Out::create(&a.out, "c16_incl.ndjson");
    let mut mgr = ReManager::new();
    let mut ntrue = 0;
    for (id, (x, y, fam)) in pairs.iter().enumerate() {
        if id % 60 == 0 {
            mgr = ReManager::new();
        }
        if !(explore_ok(x) && explore_ok(y)) {
            continue;
        }
        // the union of the pair (pruned with the same test): membership of short words, every 3rd pair
        let uw = if id % 3 == 0 { words_for(&T::Alt2(Box::new(x.clone()), Box::new(y.clone())), &mut rng, 3, 2) } else { vec![] };
        let r = guarded(|| {
            let (ex, ey) = (x.build(&mut mgr), y.build(&mut mgr));
            let res = ex.included_in(ey);
            let u = mgr.union(ex, ey);
            let u2 = mgr.union_list(vec![ey, ex]);
            let ures: Vec<bool> = uw.iter().map(|w| mgr.str_in_re(&SmtString::from(w.clone()), u)).collect();
            // the trees of the two real terms (for the structural comparison with the transcribed test)
            let mut budget = 80i64;
            let shapes = match (crate::ctor::shape(ex, &mut budget), crate::ctor::shape(ey, &mut budget)) {
                (Some(a), Some(b)) => vec![a, b],
                _ => vec![],
            };
            (res, std::ptr::eq(ex, ey), ures, std::ptr::eq(u, u2) || uw.is_empty(), shapes)
        });
        match r {
            Ok((res, same, ures, _, shapes)) => {
                if res {
                    ntrue += 1;
                }
                out.emit(json!({"op":"incl","id":id,"fam":fam,"a":x.json(),"b":y.json(),"res":res,"same":same,"uwords":uw,"ures":ures,
                    "shapes": shapes}));
            }
            Err(msg) => {
                out.emit(json!({"op":"panic","id":id,"fam":fam,"a":x.json(),"b":y.json(),"where":"included_in","msg":msg}));
                mgr = ReManager::new();
            }
        }
    }
    let n = out.finish();
    println!("{{\"family\":\"c16\",\"pairs\":{},\"true_answers\":{}}}", n, ntrue);
}

fn collect_subterms(t: &T, out: &mut Vec<T>) {
    out.push(t.clone());
    match t {
        T::Cat2(a, b) | T::Alt2(a, b) | T::And2(a, b) | T::Diff1(a, b) => {
            collect_subterms(a, out);
            collect_subterms(b, out);
        }
        T::CatL(v) | T::AltL(v) | T::AndL(v) => v.iter().for_each(|x| collect_subterms(x, out)),
        T::DiffL(a, v) => {
            collect_subterms(a, out);
            v.iter().for_each(|x| collect_subterms(x, out));
        }
        T::Not(a) | T::Star(a) | T::Plus(a) | T::Opt(a) | T::Pow(a, _) | T::SmtLoop(a, _, _) | T::Loop(a, _, _) => {
            collect_subterms(a, out)
        }
        _ => {}
    }
}

/// C10: str_replace_re / str_replace_re_all through the SMT-LIB-named wrappers
pub fn drive_c10(a: &Args) {
    let mut rng = Rng::new(a.seed);
    let pool = Pool::new(&mut rng, true);
    // patterns over {a,b}: depth <= 1 complete, depth 2 sampled, plus random
    let atoms = vec![T::None, T::Eps, T::Chr(pool.a), T::Chr(pool.b), T::Rng(pool.a, pool.b), T::AllChar, T::All];
    let mut pats: Vec<T> = depth1(&atoms);
    let stride = a.sz(151, 7);
    pats.extend(depth2(&atoms[..6].to_vec(), stride, (a.seed as usize) % stride, false));
    for _ in 0..a.sz(150, 3000) {
        pats.push(random_term(&mut rng, 3, &pool));
    }
    // literal-like patterns built in different ways (characters, strings, powers of both, concatenated): each
    // denotes one string; subjects are crafted around that string (inputs only - the oracle is in TLA+)
    let pieces: Vec<T> = vec![
        T::Chr(pool.a), T::Chr(pool.b), T::Str(vec![pool.a, pool.b]), T::Str(vec![pool.b, pool.a]),
        T::Pow(Box::new(T::Chr(pool.a)), 2), T::Pow(Box::new(T::Str(vec![pool.a, pool.b])), 2),
        T::Loop(Box::new(T::Str(vec![pool.b, pool.a])), 2, Some(2)), T::Pow(Box::new(T::Chr(pool.b)), 3),
    ];
    let mut literal_pats: Vec<T> = vec![];
    for x in &pieces {
        for y in &pieces {
            literal_pats.push(T::Cat2(Box::new(x.clone()), Box::new(y.clone())));
            if a.thorough() || (literal_pats.len() + a.seed as usize) % 3 == 0 {
                for z in &pieces {
                    literal_pats.push(T::CatL(vec![x.clone(), y.clone(), z.clone()]));
                }
            }
        }
    }
    // a flexible head followed by a short rigid tail: attempts started at different positions reach the same
    // residual at neighbouring indices (every subject up to length 4 is tried for these)
    let heads: Vec<T> = vec![
        T::Not(Box::new(T::Chr(pool.a))), T::Not(Box::new(T::Chr(pool.b))), T::Not(Box::new(T::Str(vec![pool.a, pool.b]))),
        T::AllChar, T::Opt(Box::new(T::Chr(pool.a))), T::Opt(Box::new(T::Str(vec![pool.b, pool.a]))),
        T::Star(Box::new(T::Cat2(Box::new(T::Chr(pool.a)), Box::new(T::AllChar)))), T::Rng(pool.a, pool.b),
        T::Not(Box::new(T::Eps)), T::Star(Box::new(T::Chr(pool.a))), T::Plus(Box::new(T::Str(vec![pool.a, pool.b]))),
        T::Not(Box::new(T::Cat2(Box::new(T::Chr(pool.a)), Box::new(T::All)))),
    ];
    let tails: Vec<T> = vec![
        T::Str(vec![pool.b, pool.b]), T::Str(vec![pool.a, pool.b]), T::Cat2(Box::new(T::Chr(pool.b)), Box::new(T::AllChar)),
        T::Cat2(Box::new(T::AllChar), Box::new(T::Chr(pool.b))), T::Chr(pool.a), T::Str(vec![pool.b, pool.a, pool.b]),
    ];
    let mut overlap_pats: Vec<T> = vec![];
    for h in &heads {
        for t in &tails {
            overlap_pats.push(T::Cat2(Box::new(h.clone()), Box::new(t.clone())));
        }
    }
    // competing alternatives: a long word that is still alive at the end of the subject (one letter missing), its
    // suffix from position 1 and an inner piece from position 2 - the match that ENDS first is not the leftmost
    {
        let letters = [pool.a, pool.b];
        let mut words: Vec<Vec<u32>> = vec![];
        for n in 3..=4usize {
            for code in 0..(1u32 << n) {
                words.push((0..n).map(|i| letters[((code >> i) & 1) as usize]).collect());
            }
        }
        for (wi, w) in words.iter().enumerate() {
            for &x in &letters {
                if !a.thorough() && (wi + x as usize) % 2 != (a.seed as usize) % 2 {
                    continue;
                }
                let mut long = w.clone();
                long.push(x);
                let suffix = T::Str(w[1..].to_vec());
                let inner = T::Str(w[2..w.len() - 1].to_vec());
                overlap_pats.push(T::AltL(vec![T::Str(long.clone()), suffix.clone(), inner.clone()]));
                overlap_pats.push(T::AltL(vec![T::CatL(vec![T::Chr(w[0]), T::All, T::Chr(x), T::Chr(x)]), suffix.clone(), inner.clone()]));
                overlap_pats.push(T::Alt2(Box::new(T::Str(long)), Box::new(inner)));
            }
        }
    }
    let mut pats: Vec<(T, bool)> = pats.into_iter().map(|t| (t, false)).collect();
    pats.extend(overlap_pats.into_iter().map(|t| (t, true)));
    pats.extend(literal_pats.into_iter().map(|t| (t, false)));
    let pats: Vec<(T, bool)> = pats.into_iter().filter(|t| !t.0.has_quot()).map(|t| (t.0.smt_form(), t.1)).filter(|t| t.0.cost() <= COST_LIMIT).collect();
    let subjects = {
        let mut all: Vec<Vec<u32>> = vec![vec![]];
        let mut fr: Vec<Vec<u32>> = vec![vec![]];
        for _ in 0..a.sz(4, 5) {
            let mut nx = vec![];
            for w in &fr {
                for &c in &[pool.a, pool.b] {
                    let mut x = w.clone();
                    x.push(c);
                    nx.push(x);
                }
            }
            all.extend(nx.iter().cloned());
            fr = nx;
        }
        all
    };
    let repls: Vec<Vec<u32>> = vec![vec![], vec![88], vec![pool.a, pool.b]];
    let mut out = Out::create(&a.out, "c10_replace.ndjson");
    // jobs are run on wrapper threads: one long-lived (dirty thread-local manager), others fresh
    let seed = a.seed;
    let njobs = pats.len();
    let chunk = 60;
    let mut k = 0;
    let mut results: Vec<Value> = vec![];
    let mut dirty: Vec<(usize, T, bool)> = vec![];
    while k < njobs {
        let items: Vec<(usize, T, bool)> = (k..(k + chunk).min(njobs)).map(|i| (i, pats[i].0.clone(), pats[i].1)).collect();
        if (k / chunk) % 2 == 0 {
            dirty.extend(items);
        } else {
            results.extend(run_replace_jobs(items, subjects.clone(), repls.clone(), seed, a.thorough()));
        }
        k += chunk;
    }
    results.extend(run_replace_jobs(dirty, subjects.clone(), repls.clone(), seed ^ 77, a.thorough()));
    // the same small scope over letters at the boundaries of narrower character types (0 / 0x80, 0x7F / 0x80,
    // 0xFF / 0x100, 0xFFFF / 0x10000, the last two characters): depth <= 1 patterns, every subject up to length 3
    let mut next_id = njobs;
    for (la, lb) in [(0u32, 0x80u32), (0x7F, 0x80), (0xFF, 0x100), (0xFFFF, 0x10000), (MAX_CHAR - 1, MAX_CHAR)] {
        let atoms2 = vec![T::Eps, T::Chr(la), T::Chr(lb), T::Rng(la.min(lb), la.max(lb)), T::AllChar, T::All];
        let pats2: Vec<T> = depth1(&atoms2).into_iter().filter(|t| !t.has_quot()).map(|t| t.smt_form()).filter(|t| t.cost() <= COST_LIMIT).collect();
        let mut subj2: Vec<Vec<u32>> = vec![vec![]];
        let mut fr: Vec<Vec<u32>> = vec![vec![]];
        for _ in 0..3 {
            let mut nx = vec![];
            for w in &fr {
                for &c in &[la, lb] {
                    let mut x = w.clone();
                    x.push(c);
                    nx.push(x);
                }
            }
            subj2.extend(nx.iter().cloned());
            fr = nx;
        }
        let items: Vec<(usize, T, bool)> = pats2
            .into_iter()
            .enumerate()
            .filter(|(i, _)| a.thorough() || i % 2 == (a.seed as usize) % 2)
            .map(|(i, t)| (next_id + i, t, true))
            .collect();
        next_id += 1000;
        results.extend(run_replace_jobs(items, subj2, vec![vec![], vec![88], vec![la, lb]], seed ^ la as u64, a.thorough()));
    }
    // an alternative that DIES without ever becoming the syntactic empty term (a flexible head in front of a
    // semantically empty tail) next to an alternative that matches later in the subject: the death of one attempt says
    // nothing about the attempts that start further right
    {
        let (x, y, z) = (pool.a, pool.b, pool.c);
        let ch = |c: u32| Box::new(T::Chr(c));
        let heads3: Vec<T> = vec![T::Star(ch(x)), T::All, T::Star(Box::new(T::Rng(x, y))), T::Plus(ch(x))];
        let dead: Vec<T> = vec![
            T::And2(ch(y), ch(z)),
            T::And2(Box::new(T::Str(vec![x, y])), Box::new(T::Str(vec![y, x]))),
            T::And2(Box::new(T::Cat2(Box::new(T::Star(ch(x))), ch(y))), Box::new(T::Cat2(Box::new(T::Star(ch(x))), ch(z)))),
            T::Diff1(ch(y), Box::new(T::Rng(x, z))),
        ];
        let live: Vec<T> = vec![T::Chr(y), T::Str(vec![x, y]), T::Chr(z), T::Cat2(ch(y), Box::new(T::AllChar))];
        let mut pats4: Vec<T> = vec![];
        for h in &heads3 {
            for d in &dead {
                for l in &live {
                    let dying = T::Cat2(Box::new(h.clone()), Box::new(d.clone()));
                    pats4.push(T::Alt2(Box::new(dying.clone()), Box::new(l.clone())));
                    pats4.push(T::Cat2(Box::new(T::Alt2(Box::new(dying), Box::new(T::Eps))), Box::new(l.clone())));
                }
            }
        }
        let pats4: Vec<T> = pats4.into_iter().map(|t| t.smt_form()).filter(|t| t.cost() <= COST_LIMIT).collect();
        let mut subj4: Vec<Vec<u32>> = vec![vec![]];
        let mut fr: Vec<Vec<u32>> = vec![vec![]];
        for _ in 0..4 {
            let mut nx = vec![];
            for w in &fr {
                for &c in &[x, y, z] {
                    let mut v = w.clone();
                    v.push(c);
                    nx.push(v);
                }
            }
            subj4.extend(nx.iter().cloned());
            fr = nx;
        }
        let items: Vec<(usize, T, bool)> = pats4
            .into_iter()
            .enumerate()
            .filter(|(i, _)| a.thorough() || (i / 2) % 2 == (a.seed as usize) % 2)
            .map(|(i, t)| (next_id + i, t, true))
            .collect();
        next_id += 1000;
        results.extend(run_replace_jobs(items, subj4, vec![vec![], vec![88], vec![x, y]], seed ^ 0x44, a.thorough()));
    }
    // three letters x < y < z: classes that are NOT intervals ({x,z} without y), repeated and followed / preceded by
    // another class; every subject up to length 4 over the three letters (a search that loops on x and z and then
    // meets y sits between two classes numerically)
    for (ti, (x, y, z)) in [(97u32, 98u32, 99u32), (0x60, 0x100, 0x10000)].into_iter().enumerate() {
        let ch = |c: u32| Box::new(T::Chr(c));
        let cls: Vec<T> = vec![
            T::Chr(x), T::Chr(y), T::Chr(z), T::Alt2(ch(x), ch(z)), T::Alt2(ch(x), ch(y)), T::Rng(x, z), T::AllChar,
        ];
        let mut pats3: Vec<T> = vec![];
        for c1 in &cls {
            let heads = vec![T::Star(Box::new(c1.clone())), T::Plus(Box::new(c1.clone())), T::Loop(Box::new(c1.clone()), 1, Some(2))];
            for h in heads {
                for c2 in &cls {
                    pats3.push(T::Cat2(Box::new(h.clone()), Box::new(c2.clone())));
                    pats3.push(T::Cat2(Box::new(c2.clone()), Box::new(h.clone())));
                }
            }
        }
        let pats3: Vec<T> = pats3.into_iter().map(|t| t.smt_form()).filter(|t| t.cost() <= COST_LIMIT).collect();
        let mut subj3: Vec<Vec<u32>> = vec![vec![]];
        let mut fr: Vec<Vec<u32>> = vec![vec![]];
        for _ in 0..4 {
            let mut nx = vec![];
            for w in &fr {
                for &c in &[x, y, z] {
                    let mut v = w.clone();
                    v.push(c);
                    nx.push(v);
                }
            }
            subj3.extend(nx.iter().cloned());
            fr = nx;
        }
        let items: Vec<(usize, T, bool)> = pats3
            .into_iter()
            .enumerate()
            .filter(|(i, _)| a.thorough() || (i + ti) % 2 == (a.seed as usize) % 2)
            .map(|(i, t)| (next_id + i, t, true))
            .collect();
        next_id += 1000;
        results.extend(run_replace_jobs(items, subj3, vec![vec![], vec![88], vec![x, y]], seed ^ z as u64, a.thorough()));
    }
    for v in results {
        out.emit(v);
    }
    let n = out.finish();
    println!("{{\"family\":\"c10\",\"patterns\":{},\"subjects\":{},\"events\":{}}}", njobs, subjects.len(), n);
}

/// the single string a literal-like pattern is made of (used to craft subjects, never to judge)
fn literal_of(t: &T) -> Option<Vec<u32>> {
    match t {
        T::Eps => Some(vec![]),
        T::Chr(c) => Some(vec![*c]),
        T::Str(w) => Some(w.clone()),
        T::Pow(a, n) => literal_of(a).map(|w| (0..*n).flat_map(|_| w.clone()).collect()),
        T::SmtLoop(a, i, j) | T::Loop(a, i, Some(j)) if i == j => literal_of(a).map(|w| (0..*i).flat_map(|_| w.clone()).collect()),
        T::Cat2(a, b) => match (literal_of(a), literal_of(b)) {
            (Some(mut x), Some(y)) => { x.extend(y); Some(x) }
            _ => None,
        },
        T::CatL(v) => {
            let mut out = vec![];
            for x in v {
                out.extend(literal_of(x)?);
            }
            Some(out)
        }
        _ => None,
    }
}

fn run_replace_jobs(items: Vec<(usize, T, bool)>, subjects: Vec<Vec<u32>>, repls: Vec<Vec<u32>>, seed: u64, thorough: bool) -> Vec<Value> {
    std::thread::spawn(move || {
        let mut rng = Rng::new(seed);
        let mut out = vec![];
        for (id, t, all_subjects) in items {
            let mut subjects = subjects.clone();
            if all_subjects {
                // periodic subjects S S S R: what was learnt in one period (where the match is, which starts
                // failed) is not true of the next one when a longer alternative reaches beyond the period
                let short: Vec<Vec<u32>> = subjects.iter().filter(|w| !w.is_empty() && w.len() <= 2).cloned().collect();
                let rests: Vec<Vec<u32>> = subjects.iter().filter(|w| w.len() <= 2).cloned().collect();
                for s in &short {
                    for r in &rests {
                        let mut w = vec![];
                        for _ in 0..3 {
                            w.extend(s.iter());
                        }
                        w.extend(r.iter());
                        if (w.len() + id) % 2 == 0 || thorough {
                            subjects.push(w);
                        }
                    }
                }
            }
            if let Some(w) = literal_of(&t) {
                if w.len() >= 3 {
                    // around the literal: itself, embedded, doubled, truncated, each proper prefix as a decoy
                    subjects.truncate(15);
                    let mut emb = vec![120];
                    emb.extend(w.iter());
                    emb.push(121);
                    let mut dbl = w.clone();
                    dbl.extend(w.iter());
                    let mut decoy = vec![120];
                    decoy.extend(w[..w.len() - 1].iter());
                    decoy.push(121);
                    decoy.extend(w.iter());
                    subjects.push(w.clone());
                    subjects.push(emb);
                    subjects.push(dbl);
                    subjects.push(w[..w.len() - 1].to_vec());
                    subjects.push(decoy);
                    for k in 1..w.len().min(4) {
                        let mut p = vec![120];
                        p.extend(w[..k].iter());
                        p.push(121);
                        subjects.push(p);
                    }
                }
            }
            let built = guarded(|| t.build_smt());
            let e = match built {
                Ok(e) => e,
                Err(msg) => {
                    out.push(json!({"op":"panic","id":id,"ast":t.json(),"where":"wrappers","msg":msg}));
                    continue;
                }
            };
            let mut calls = vec![];
            let mut panics = vec![];
            for (si, s) in subjects.iter().enumerate() {
                // every subject with one replacement (all three in the thorough tier for short subjects)
                let picks: Vec<&Vec<u32>> = if thorough && s.len() <= 3 { repls.iter().collect() } else { vec![&repls[(si + id) % 3]] };
                // sample the longer subjects in the quick tier
                if !thorough && !all_subjects && s.len() >= 4 && rng.below(3) != 0 {
                    continue;
                }
                for u in picks {
                    let (ss, us) = (SmtString::from(s.clone()), SmtString::from(u.clone()));
                    for all in [false, true] {
                        let r = guarded(|| if all { smt::str_replace_re_all(&ss, e, &us) } else { smt::str_replace_re(&ss, e, &us) });
                        match r {
                            Ok(x) => {
                                let v: Vec<u32> = x.iter().cloned().collect();
                                calls.push(json!({"s":s,"u":u,"all":all,"r":v,"good":x.is_good()}));
                            }
                            Err(msg) => panics.push(json!({"s":s,"u":u,"all":all,"msg":msg})),
                        }
                    }
                }
            }
            out.push(json!({"op":"replace_re","id":id,"ast":t.json(),"nullable":e.nullable,"calls":calls,"panics":panics}));
        }
        out
    })
    .join()
    .expect("replace thread")
}

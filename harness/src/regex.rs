//! Drivers for the regular-expression properties.  Every record carries the construction AST of
//! the term it is about; all judging happens in TLA+ (Trace_Product, Trace_Regex).
use crate::dump::*;
use crate::terms::*;
use crate::util::*;
use aws_smt_strings::regular_expressions::{ReManager, RegLan};
use aws_smt_strings::smt_regular_expressions as smt;
use aws_smt_strings::smt_strings::SmtString;
use serde_json::{json, Map, Value};
use std::collections::BTreeSet;

/// cases above this heuristic cost are checked on bounded words only (see T::cost)
pub const COST_LIMIT: u64 = 48;

pub struct Fam {
    pub t: T,
    pub fam: &'static str,
}

/// The term families shared by C01/C02/C03/C05/C18/C19 (DESIGN 5, C01 "Gen").
pub fn families(a: &Args, rng: &mut Rng) -> Vec<Fam> {
    let mut v = vec![];
    let pool = Pool::new(rng, true);
    // depth <= 1 over the extended atom pool: complete
    for t in depth1(&pool.more_atoms()) {
        v.push(Fam { t, fam: "depth1" });
    }
    // depth 2 over the six core atoms: stratified sample (quick) or larger sample (thorough)
    let core = vec![T::None, T::Eps, T::Chr(pool.a), T::Chr(pool.b), T::Rng(pool.a, pool.b), T::AllChar];
    let d2_stride = match a.rest.iter().position(|x| x == "--d2-stride") {
        Some(i) => a.rest[i + 1].parse().unwrap(),
        None => a.sz(211, 13),
    };
    let off = (a.seed as usize) % d2_stride;
    for t in depth2(&core, d2_stride, off, true) {
        v.push(Fam { t, fam: "depth2" });
    }
    // a second layout of the letters (boundaries of the alphabet) for depth 1
    let pool2 = Pool::new(rng, false);
    for (i, t) in depth1(&pool2.atoms()).into_iter().enumerate() {
        if i % 3 == (a.seed as usize) % 3 || a.thorough() {
            v.push(Fam { t, fam: "depth1-layout2" });
        }
    }
    for t in semantically_empty_family(&pool) {
        v.push(Fam { t, fam: "sem-empty" });
    }
    let nrand = a.sz(700, 12000);
    for i in 0..nrand {
        let d = 2 + (i % 4);
        let p = if i % 3 == 0 { &pool2 } else { &pool };
        v.push(Fam { t: random_term(rng, d, p), fam: "random" });
    }
    v
}

fn words_for(t: &T, rng: &mut Rng, maxlen: usize, extra_random: usize) -> Vec<Vec<u32>> {
    let mut ends = vec![];
    t.ends(&mut ends);
    let mut letters: BTreeSet<u32> = ends.into_iter().filter(|&x| x <= MAX_CHAR).collect();
    if letters.is_empty() {
        letters.insert(97);
    }
    // at most three letters for the exhaustive part: prefer interval starts
    let ls: Vec<u32> = letters.iter().cloned().collect();
    let pick: Vec<u32> = if ls.len() <= 3 {
        ls.clone()
    } else {
        let mut p = vec![ls[0], ls[ls.len() / 2], ls[ls.len() - 1]];
        p.dedup();
        p
    };
    let mut words: Vec<Vec<u32>> = vec![vec![]];
    let mut frontier: Vec<Vec<u32>> = vec![vec![]];
    for _ in 0..maxlen {
        let mut next = vec![];
        for w in &frontier {
            for &c in &pick {
                let mut x = w.clone();
                x.push(c);
                next.push(x);
            }
        }
        words.extend(next.iter().cloned());
        frontier = next;
    }
    for _ in 0..extra_random {
        let n = rng.range(1, 8) as usize;
        words.push((0..n).map(|_| *rng.pick(&ls)).collect());
    }
    words
}

fn base_case(id: usize, f: &Fam, t: &T) -> Map<String, Value> {
    let mut m = Map::new();
    m.insert("id".into(), json!(id));
    m.insert("fam".into(), json!(f.fam));
    m.insert("rootop".into(), json!(t.op()));
    m.insert("ast".into(), t.json());
    m
}

fn panic_case(id: usize, f: &Fam, what: &str, msg: &str) -> Value {
    let mut m = base_case(id, f, &f.t);
    m.insert("op".into(), json!("panic"));
    m.insert("where".into(), json!(what));
    m.insert("msg".into(), json!(msg));
    Value::Object(m)
}

/// C01: derivative-graph product cases + bounded membership through both API surfaces
pub fn drive_c01(a: &Args) {
    let mut rng = Rng::new(a.seed);
    let fams = families(a, &mut rng);
    let mut prod = Out::create(&a.out, "c01_products.ndjson");
    let mut mem = Out::create(&a.out, "c01_mem.ndjson");
    let mut mgr = ReManager::new();
    let mut smt_jobs: Vec<(usize, usize)> = vec![];
    for (id, f) in fams.iter().enumerate() {
        // a fresh manager every 40 terms; in between the manager is "dirty" with earlier terms
        if id % 40 == 0 {
            mgr = ReManager::new();
        }
        let mut ends = vec![];
        f.t.ends(&mut ends);
        let words = words_for(&f.t, &mut rng, 3, 6);
        let r = guarded(|| {
            let e = f.t.build(&mut mgr);
            let g = dgraph(&mut mgr, e, &ends, &[]);
            let res: Vec<bool> = words
                .iter()
                .map(|w| mgr.str_in_re(&SmtString::from(w.clone()), e))
                .collect();
            (e, g, res)
        });
        match r {
            Ok((e, g, res)) => {
                let mut m = base_case(id, f, &f.t);
                let explore = f.t.cost() <= COST_LIMIT && g.nodes.len() <= 60;
                m.insert("op".into(), json!(if explore { "dgraph" } else { "dgraph_skipped" }));
                g.json_fields(&mut m);
                m.insert("roots".into(), json!([{"w": [], "s": g.node_of(e), "tag": "C01:language"}]));
                m.insert("nullable".into(), json!(e.nullable));
                prod.emit(Value::Object(m));
                let mut m = base_case(id, f, &f.t);
                m.insert("op".into(), json!("mem"));
                m.insert("via".into(), json!("manager"));
                m.insert("nullable".into(), json!(e.nullable));
                m.insert("words".into(), json!(words));
                m.insert("res".into(), json!(res));
                mem.emit(Value::Object(m));
            }
            Err(msg) => {
                prod.emit(panic_case(id, f, "build/dgraph/str_in_re", &msg));
                mgr = ReManager::new();
            }
        }
        if id % 2 == 0 || a.thorough() {
            smt_jobs.push((id, smt_jobs.len()));
        }
    }
    // the SMT-LIB-named wrappers: thread-local manager.  One long-lived thread (dirty manager)
    // for even jobs, a fresh thread (fresh manager) per chunk of 25 for odd jobs.
    let seed = a.seed;
    let run_jobs = |jobs: Vec<usize>, fams: &Vec<Fam>| -> Vec<Value> {
        let items: Vec<(usize, T, &'static str)> = jobs.iter().map(|&i| (i, fams[i].t.clone(), fams[i].fam)).collect();
        std::thread::spawn(move || {
            let mut rng = Rng::new(seed ^ 0x5151);
            let mut out = vec![];
            for (id, t, fam) in items {
                let st = t.smt_form();
                let words = words_for(&st, &mut rng, 3, 6);
                let f = Fam { t: st.clone(), fam };
                let r = guarded(|| {
                    let e = st.build_smt();
                    let res: Vec<bool> = words
                        .iter()
                        .map(|w| smt::str_in_re(&SmtString::from(w.clone()), e))
                        .collect();
                    (e.nullable, res)
                });
                match r {
                    Ok((nullable, res)) => {
                        let mut m = base_case(id, &f, &st);
                        m.insert("op".into(), json!("mem"));
                        m.insert("via".into(), json!("smt"));
                        m.insert("nullable".into(), json!(nullable));
                        m.insert("words".into(), json!(words));
                        m.insert("res".into(), json!(res));
                        out.push(Value::Object(m));
                    }
                    Err(msg) => out.push(panic_case(id, &f, "wrappers", &msg)),
                }
            }
            out
        })
        .join()
        .expect("wrapper thread")
    };
    let even: Vec<usize> = smt_jobs.iter().filter(|(_, k)| k % 2 == 0).map(|(i, _)| *i).collect();
    let odd: Vec<usize> = smt_jobs.iter().filter(|(_, k)| k % 2 == 1).map(|(i, _)| *i).collect();
    for v in run_jobs(even, &fams) {
        mem.emit(v);
    }
    for chunk in odd.chunks(25) {
        for v in run_jobs(chunk.to_vec(), &fams) {
            mem.emit(v);
        }
    }
    let (np, nm) = (prod.finish(), mem.finish());
    println!("{{\"family\":\"c01\",\"terms\":{},\"products\":{},\"mem\":{}}}", fams.len(), np, nm);
}

/// C02: compiled automata (compile and try_compile/Some) as product cases with structure
pub fn drive_c02(a: &Args) {
    let mut rng = Rng::new(a.seed);
    let fams = families(a, &mut rng);
    let mut prod = Out::create(&a.out, "c02_products.ndjson");
    let mut mgr = ReManager::new();
    let full_every = if a.thorough() { 40 } else { 400 };
    for (id, f) in fams.iter().enumerate() {
        if id % 40 == 0 {
            mgr = ReManager::new();
        }
        let mut ends = vec![];
        f.t.ends(&mut ends);
        let words = words_for(&f.t, &mut rng, 2, 4);
        let use_try = id % 3 == 1;
        let r = guarded(|| {
            let e = f.t.build(&mut mgr);
            let aut = if use_try {
                // the bound is the number of derivatives, so that the Some branch is exercised
                let n = mgr.iter_derivatives(e).take(NODE_CAP).count();
                match mgr.try_compile(e, n) {
                    Some(x) => x,
                    None => return None,
                }
            } else {
                mgr.compile(e)
            };
            let extra = if id % full_every == 7 && aut.num_states() <= 12 { full_scan_reps(&aut) } else { vec![] };
            let full = !extra.is_empty();
            let d = dump_automaton(&aut, &ends, &extra);
            let acc: Vec<Value> = words
                .iter()
                .map(|w| {
                    let s = SmtString::from(w.clone());
                    let x = guarded(|| (aut.accepts(&s), aut.str_next(aut.initial_state(), &s).id() + 1));
                    match x {
                        Ok((b, t)) => json!({"w": w, "acc": b, "to": t}),
                        Err(_) => json!({"w": w, "acc": false, "to": 0}),
                    }
                })
                .collect();
            Some((d, acc, aut.num_states(), aut.num_final_states(), full))
        });
        match r {
            Ok(Some((d, acc, ns, nf, full))) => {
                let mut m = base_case(id, f, &f.t);
                let explore = f.t.cost() <= COST_LIMIT && ns <= 60;
                m.insert("op".into(), json!(if explore { "automaton" } else { "automaton_skipped" }));
                m.insert("via".into(), json!(if use_try { "try_compile" } else { "compile" }));
                d.json_fields(&mut m);
                m.insert("roots".into(), json!([{"w": [], "s": d.init, "tag": "C02:language"}]));
                m.insert("num_states".into(), json!(ns));
                m.insert("num_final".into(), json!(nf));
                m.insert("runs".into(), json!(acc));
                m.insert("fullscan".into(), json!(full));
                prod.emit(Value::Object(m));
            }
            Ok(None) => {
                let mut m = base_case(id, f, &f.t);
                m.insert("op".into(), json!("trynone"));
                prod.emit(Value::Object(m));
            }
            Err(msg) => {
                prod.emit(panic_case(id, f, "compile", &msg));
                mgr = ReManager::new();
            }
        }
    }
    let np = prod.finish();
    println!("{{\"family\":\"c02\",\"terms\":{},\"products\":{}}}", fams.len(), np);
}

#[allow(dead_code)]
pub fn unused(_: RegLan) {}

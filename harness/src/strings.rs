//! C06 / C08 / C09 / C17: SMT-LIB string functions, literals, conversions, constructors.
//! Judged by Trace_Strings.tla against SmtStrings.tla and Literals.tla.
use crate::util::{guarded, Args, Out, Rng};
use aws_smt_strings::regular_expressions::ReManager;
use aws_smt_strings::smt_strings::*;
use serde_json::{json, Map, Value};

fn sv(s: &SmtString) -> Vec<u32> {
    s.iter().cloned().collect()
}
fn mk(v: &[u32]) -> SmtString {
    SmtString::from(v.to_vec())
}
fn cps(s: &str) -> Vec<u32> {
    s.chars().map(|c| c as u32).collect()
}

fn ev(f: &str) -> Map<String, Value> {
    let mut m = Map::new();
    m.insert("op".into(), json!("f"));
    m.insert("f".into(), json!(f));
    m
}

fn seq_result(m: &mut Map<String, Value>, r: Result<SmtString, String>) {
    match r {
        Ok(s) => {
            m.insert("rs".into(), json!(sv(&s)));
            m.insert("good".into(), json!(s.is_good()));
            m.insert("panic".into(), json!(false));
        }
        Err(_) => {
            m.insert("rs".into(), json!([]));
            m.insert("good".into(), json!(false));
            m.insert("panic".into(), json!(true));
        }
    }
}
fn int_result(m: &mut Map<String, Value>, r: Result<i32, String>) {
    m.insert("ri".into(), json!(r.clone().unwrap_or(0)));
    m.insert("panic".into(), json!(r.is_err()));
}
fn bool_result(m: &mut Map<String, Value>, r: Result<bool, String>) {
    m.insert("rb".into(), json!(r.clone().unwrap_or(false)));
    m.insert("panic".into(), json!(r.is_err()));
}

fn all_strings(letters: &[u32], maxlen: usize) -> Vec<Vec<u32>> {
    let mut all: Vec<Vec<u32>> = vec![vec![]];
    let mut frontier: Vec<Vec<u32>> = vec![vec![]];
    for _ in 0..maxlen {
        let mut next = vec![];
        for w in &frontier {
            for &c in letters {
                let mut x = w.clone();
                x.push(c);
                next.push(x);
            }
        }
        all.extend(next.iter().cloned());
        frontier = next;
    }
    all
}

fn ints_for(len: usize) -> Vec<i32> {
    let mut v = vec![i32::MIN, -2, -1, i32::MAX, i32::MAX - 1];
    for k in 0..=(len as i32 + 2) {
        v.push(k);
    }
    v
}

fn call_all(out: &mut Out, s: &[u32], t: &[u32], u: &[u32], is: &[i32], ns: &[i32]) {
    let (ss, ts, us) = (mk(s), mk(t), mk(u));
    let base = |f: &str| {
        let mut m = ev(f);
        m.insert("s".into(), json!(s));
        m.insert("t".into(), json!(t));
        m
    };
    let mut m = base("concat");
    seq_result(&mut m, guarded(|| str_concat(&ss, &ts)));
    out.emit(Value::Object(m));
    let mut m = base("prefixof");
    bool_result(&mut m, guarded(|| str_prefixof(&ts, &ss)));
    out.emit(Value::Object(m));
    let mut m = base("suffixof");
    bool_result(&mut m, guarded(|| str_suffixof(&ts, &ss)));
    out.emit(Value::Object(m));
    let mut m = base("contains");
    bool_result(&mut m, guarded(|| str_contains(&ss, &ts)));
    out.emit(Value::Object(m));
    let mut m = base("replace");
    m.insert("u".into(), json!(u));
    seq_result(&mut m, guarded(|| str_replace(&ss, &ts, &us)));
    out.emit(Value::Object(m));
    let mut m = base("replace_all");
    m.insert("u".into(), json!(u));
    seq_result(&mut m, guarded(|| str_replace_all(&ss, &ts, &us)));
    out.emit(Value::Object(m));
    for &i in is {
        let mut m = base("indexof");
        m.insert("i".into(), json!(i));
        int_result(&mut m, guarded(|| str_indexof(&ss, &ts, i)));
        out.emit(Value::Object(m));
    }
    let _ = ns;
}

fn call_unary(out: &mut Out, s: &[u32], is: &[i32], ns: &[i32]) {
    let ss = mk(s);
    let mut m = ev("len");
    m.insert("s".into(), json!(s));
    int_result(&mut m, guarded(|| str_len(&ss)));
    out.emit(Value::Object(m));
    for &i in is {
        let mut m = ev("at");
        m.insert("s".into(), json!(s));
        m.insert("i".into(), json!(i));
        seq_result(&mut m, guarded(|| str_at(&ss, i)));
        out.emit(Value::Object(m));
        for &n in ns {
            let mut m = ev("substr");
            m.insert("s".into(), json!(s));
            m.insert("i".into(), json!(i));
            m.insert("n".into(), json!(n));
            seq_result(&mut m, guarded(|| str_substr(&ss, i, n)));
            out.emit(Value::Object(m));
        }
    }
}

/// C06: search / substring / replace functions
pub fn drive_c06(a: &Args) {
    let mut rng = Rng::new(a.seed);
    let mut out = Out::create(&a.out, "c06_strings.ndjson");
    let (la, lb) = (97u32, 98u32);
    let subjects = all_strings(&[la, lb], a.sz(4, 4));
    let patterns = all_strings(&[la, lb], a.sz(2, 3));
    let repls: Vec<Vec<u32>> = vec![vec![], vec![la], vec![lb, la]];
    for (k, s) in subjects.iter().enumerate() {
        let is = ints_for(s.len());
        call_unary(&mut out, s, &is, &is);
        for (j, t) in patterns.iter().enumerate() {
            // every (subject, pattern) pair with one replacement (all three in the thorough tier)
            if a.thorough() {
                for u in &repls {
                    call_all(&mut out, s, t, u, &is, &is);
                }
            } else {
                call_all(&mut out, s, t, &repls[(k + j) % 3], &is, &is);
            }
        }
    }
    // the same small scope over pairs of code points that a lossy comparison could confuse (surrogate range vs
    // U+FFFD, equal low 16 bits, case, 8-bit truncation) and over the ends of the alphabet
    let confusable: [(u32, u32); 9] = [(0xD800, 0xFFFD), (0xFFFD, 0xDFFF), (0x61, 0x10061), (0x20061, 0x61), (0x41, 0x61),
        (0xFF, 0x1FF), (0, 0x10000), (0, MAX_CHAR), (0x80, 0)];
    for (ci, &(p, q)) in confusable.iter().enumerate() {
        let subjects = all_strings(&[p, q], 3);
        let patterns = all_strings(&[p, q], 2);
        for (k, s) in subjects.iter().enumerate() {
            let is = ints_for(s.len());
            for (j, t) in patterns.iter().enumerate() {
                if !a.thorough() && (k + j + ci) % 2 != (a.seed as usize) % 2 && s.len() == 3 {
                    continue;
                }
                let u = if (k + j) % 2 == 0 { vec![p] } else { vec![q, p] };
                call_all(&mut out, s, t, &u, &is[..is.len().min(6)], &is[..is.len().min(6)]);
            }
        }
    }
    // long subjects (lengths around 8/16/32/64: block-wise code) with the pattern at the block boundaries
    for &len in &[8usize, 15, 16, 17, 32, 33, 64] {
        for pos in [0usize, 7, 14, 15, 16, len - 2] {
            if pos + 2 > len {
                continue;
            }
            let mut s: Vec<u32> = (0..len).map(|i| la + (i as u32 % 2) * 0).collect();
            s[pos] = lb;
            s[pos + 1] = lb;
            let is: Vec<i32> = vec![0, pos as i32, pos as i32 + 1, len as i32 - 1, len as i32, 16, 17];
            for t in [vec![lb, lb], vec![lb], vec![la, lb, lb], vec![lb, lb, la], vec![lb, la, lb]] {
                call_all(&mut out, &s, &t, &vec![la, lb], &is, &is);
            }
            // at / substr with positions and lengths around the block boundaries, and the extremes
            if pos == 0 {
                let idx: Vec<i32> = vec![-1, 0, 7, 8, 15, 16, 17, len as i32 - 1, len as i32, len as i32 + 1, i32::MAX];
                let lens: Vec<i32> = vec![-1, 0, 1, 8, 16, 17, len as i32, i32::MAX];
                let distinct: Vec<u32> = (0..len).map(|i| 0x100 + i as u32).collect();
                call_unary(&mut out, &distinct, &idx, &lens);
            }
            // a string against itself with one late difference
            let mut s2 = s.clone();
            s2[len - 1] = lb;
            call_all(&mut out, &s, &s2, &vec![], &is[..3], &is[..3]);
            call_all(&mut out, &s2, &s2[pos..].to_vec(), &vec![], &is[..3], &is[..3]);
        }
    }
    // anti-hash inputs: the Thue-Morse word and its letter-swapped complement have the same polynomial hash modulo
    // 2^64 for every odd base from length 1024 on (a search that compares hashes instead of characters fails here
    // and nowhere else); also periodic strings, where a wrong shift table of a skip-ahead search shows
    {
        let tm = |n: usize, flip: bool| -> Vec<u32> {
            (0..n).map(|i| if ((i.count_ones() & 1) == 1) != flip { lb } else { la }).collect()
        };
        for &n in &[256usize, 1024] {
            let (t, c) = (tm(n, false), tm(n, true));
            let mut hay = vec![0x63, 0x63];
            hay.extend(c.iter());
            hay.push(0x63);
            hay.extend(t.iter());
            call_all(&mut out, &c, &t, &vec![0x58], &[0, 1], &[0]);
            call_all(&mut out, &hay, &t, &vec![0x58], &[0, 2, 3], &[0]);
            call_all(&mut out, &hay, &c, &vec![], &[0, 3], &[0]);
        }
        for p in [vec![la, lb], vec![la, la, lb], vec![la, lb, la]] {
            let per: Vec<u32> = (0..40).map(|i| p[i % p.len()]).collect();
            let mut pat = per[..p.len() * 3].to_vec();
            call_all(&mut out, &per, &pat, &vec![0x58], &[0, 1, 5], &[0]);
            pat.push(lb);
            call_all(&mut out, &per, &pat, &vec![0x58], &[0, 1, 5], &[0]);
        }
    }
    // self-overlapping patterns (borders within borders) and subjects made of an occurrence, a proper prefix of the
    // pattern and another occurrence: where searches that shift by a failure table go wrong
    {
        let lens: Vec<usize> = if a.thorough() { vec![4, 5, 6, 7, 8, 9] } else { vec![5, 6, 7] };
        for &n in &lens {
            for code in 0..(1u32 << n) {
                let p: Vec<u32> = (0..n).map(|i| if (code >> i) & 1 == 1 { lb } else { la }).collect();
                // only patterns with a proper border (prefix = suffix)
                let has_border = (1..n).any(|k| p[..k] == p[n - k..]);
                if !has_border {
                    continue;
                }
                if !a.thorough() && n == 7 && code % 2 != (a.seed as u32) % 2 {
                    continue;
                }
                for k in [n / 2, n - 2, n - 1] {
                    let mut s = p.clone();
                    s.extend(p[..k].iter());
                    s.extend(p.iter());
                    s.push(0x7A);
                    s.extend(p.iter());
                    call_all(&mut out, &s, &p, &vec![0x58], &[0, 1, n as i32], &[0]);
                }
            }
        }
    }
    // three letters: patterns of length 4 and 5 (all of them: repeats that are not adjacent need a third letter)
    // against subjects made of a proper prefix of the pattern followed by the pattern
    {
        let l3 = [la, lb, 0x63];
        for n in [4usize, 5] {
            for code in 0..3usize.pow(n as u32) {
                if n == 5 && !a.thorough() && code % 3 != (a.seed as usize) % 3 {
                    continue;
                }
                let mut c = code;
                let p: Vec<u32> = (0..n).map(|_| { let x = l3[c % 3]; c /= 3; x }).collect();
                for k in 1..n {
                    if !a.thorough() && n == 5 && k % 2 == 0 {
                        continue;
                    }
                    let mut s = p[..k].to_vec();
                    s.extend(p.iter());
                    s.push(l3[(code + k) % 3]);
                    call_all(&mut out, &s, &p, &vec![0x58], &[0, 1], &[0]);
                }
            }
        }
    }
    // HEAVY subjects: the sum of the code points passes 2^32 (21846 copies of the last character) and 2^31 - an
    // aggregate over the characters (sum, weight, checksum) kept in a machine word wraps or traps here and nowhere below
    // (search functions only, one subject: the validator walks these 21848 characters for every record)
    {
        let mut s: Vec<u32> = vec![MAX_CHAR; 21846];
        s.extend([la, lb]);
        let ss = mk(&s);
        for t in [vec![MAX_CHAR], vec![la, lb]] {
            let ts = mk(&t);
            let mut m = ev("contains");
            m.insert("s".into(), json!(s));
            m.insert("t".into(), json!(t));
            bool_result(&mut m, guarded(|| str_contains(&ss, &ts)));
            out.emit(Value::Object(m));
            let mut m = ev("replace");
            m.insert("s".into(), json!(s));
            m.insert("t".into(), json!(t));
            m.insert("u".into(), json!([0x78]));
            seq_result(&mut m, guarded(|| str_replace(&ss, &ts, &mk(&[0x78]))));
            out.emit(Value::Object(m));
        }
    }
    // long subjects over a RICH alphabet (64 code points from all planes): search algorithms with per-character
    // tables (skip tables, hashed or truncated indices) only show their flaws when many distinct characters meet
    {
        let mut alpha: Vec<u32> = (0..56u32).map(|i| (i * 0x2F3D + 0x61) % (MAX_CHAR + 1)).collect();
        alpha.extend([0, 0x5C, 0xD800, 0xFFFF, 0x10000, 0x20000, 0x20061, MAX_CHAR]);
        for _ in 0..a.sz(220, 2500) {
            let n = rng.range(262, 330) as usize;
            let mut s: Vec<u32> = (0..n).map(|_| *rng.pick(&alpha)).collect();
            let plen = rng.range(3, 5) as usize;
            let pos = rng.range(4, (n - plen - 1) as u32) as usize;
            let t: Vec<u32> = s[pos..pos + plen].to_vec();
            // a near miss before the real occurrence: the pattern without its last character
            if pos > plen + 2 {
                let q = rng.range(0, (pos - plen) as u32) as usize;
                for k in 0..plen - 1 {
                    s[q + k] = t[k];
                }
            }
            let is: Vec<i32> = vec![0, rng.range(0, pos as u32) as i32];
            call_all(&mut out, &s, &t, &vec![0x58], &is, &[0]);
        }
    }
    // random strings over real code points
    let pool = [0u32, 1, 0x41, 0x42, 0xFFFF, 0x10000, MAX_CHAR - 1, MAX_CHAR, 0xD800, 0xDFFF, 0xFFFD];
    for _ in 0..a.sz(800, 15000) {
        let nl = rng.range(1, 3) as usize;
        let letters: Vec<u32> = (0..nl).map(|_| if rng.coin(1, 2) { *rng.pick(&pool) } else { rng.ch() }).collect();
        let gen = |rng: &mut Rng, max: u32| -> Vec<u32> {
            let n = rng.range(0, max) as usize;
            (0..n).map(|_| *rng.pick(&letters)).collect()
        };
        let s = gen(&mut rng, 12);
        let t = if rng.coin(1, 3) && s.len() >= 2 {
            let i = rng.below(s.len() as u64 - 1) as usize;
            s[i..(i + 1 + rng.below((s.len() - i) as u64) as usize).min(s.len())].to_vec()
        } else {
            gen(&mut rng, 3)
        };
        let u = gen(&mut rng, 3);
        let is: Vec<i32> = vec![rng.range(0, 13) as i32, -(rng.range(0, 3) as i32), s.len() as i32, i32::MAX, i32::MIN];
        call_all(&mut out, &s, &t, &u, &is, &is);
        call_unary(&mut out, &s, &is[..3], &[rng.range(0, 14) as i32, i32::MAX, -1]);
    }
    let n = out.finish();
    println!("{{\"family\":\"c06\",\"events\":{}}}", n);
}

/// C09: order and conversions (run under both build profiles)
pub fn drive_c09(a: &Args) {
    let mut rng = Rng::new(a.seed);
    let profile = if cfg!(debug_assertions) { "dev" } else { "release" };
    let mut out = Out::create(&a.out, &format!("c09_{}.ndjson", profile));
    let letters = [0x30u32, 0x39, MAX_CHAR];
    let strs = all_strings(&letters, 3);
    for s in &strs {
        for t in &strs {
            let (ss, ts) = (mk(s), mk(t));
            let mut m = ev("lt");
            m.insert("s".into(), json!(s));
            m.insert("t".into(), json!(t));
            bool_result(&mut m, guarded(|| str_lt(&ss, &ts)));
            out.emit(Value::Object(m));
            let mut m = ev("le");
            m.insert("s".into(), json!(s));
            m.insert("t".into(), json!(t));
            bool_result(&mut m, guarded(|| str_le(&ss, &ts)));
            out.emit(Value::Object(m));
        }
    }
    // the order on characters that a narrower comparison would confuse (same low 16 / low 8 bits) and at both
    // ends of the alphabet
    {
        let cl = [0u32, 0x61, 0x161, 0x10061, 0x20061, 0xFFFF, 0x10000, MAX_CHAR - 1, MAX_CHAR];
        let ws = all_strings(&cl, 2);
        for (i, s) in ws.iter().enumerate() {
            for (j, t) in ws.iter().enumerate() {
                if !a.thorough() && (i + j) % 3 != (a.seed as usize) % 3 && s.len() + t.len() == 4 {
                    continue;
                }
                let (ss, ts) = (mk(s), mk(t));
                for (name, r) in [("lt", guarded(|| str_lt(&ss, &ts))), ("le", guarded(|| str_le(&ss, &ts)))] {
                    let mut m = ev(name);
                    m.insert("s".into(), json!(s));
                    m.insert("t".into(), json!(t));
                    bool_result(&mut m, r);
                    out.emit(Value::Object(m));
                }
            }
        }
    }
    // long common prefixes (lengths around 8/16/32/64) followed by every short tail
    let tails: Vec<Vec<u32>> = vec![vec![], vec![0x30], vec![0x39], vec![0x30, 0x39], vec![0x39, 0x30], vec![MAX_CHAR]];
    for &len in &[7usize, 8, 15, 16, 17, 31, 32, 33, 64] {
        let prefix: Vec<u32> = (0..len).map(|i| 0x41 + (i as u32 % 5)).collect();
        for x in &tails {
            for y in &tails {
                let (mut s, mut t) = (prefix.clone(), prefix.clone());
                s.extend(x.iter());
                t.extend(y.iter());
                let (ss, ts) = (mk(&s), mk(&t));
                for (name, r) in [("lt", guarded(|| str_lt(&ss, &ts))), ("le", guarded(|| str_le(&ss, &ts)))] {
                    let mut m = ev(name);
                    m.insert("s".into(), json!(s));
                    m.insert("t".into(), json!(t));
                    bool_result(&mut m, r);
                    out.emit(Value::Object(m));
                }
            }
        }
    }
    // digit strings around every power of ten and around 2^31 / 2^32
    let mut digit_strings: Vec<String> = vec![
        "", "0", "00", "007", "9", "10", "2147483647", "2147483648", "2147483649", "02147483647", "002147483648",
        "4294967295", "4294967296", "4294967297", "5000000000", "9999999999", "10000000000", "21474836470",
        "21474836480", "99999999999", "123456789012", "999999999999", "18446744073709551616", "3000000000",
        "2147483650", "2147483639", "1999999999", "2999999999", "12a", "-1", "+1", " 1", "1 ", "٣", "1٣",
        // look-alikes of ASCII digits: full-width, and characters with the same low 8 / 16 bits
        "\u{FF11}", "1\u{FF10}", "\u{10031}", "1\u{10030}", "\u{131}", "\u{20039}9", "\u{1D7CF}",
    ]
    .iter()
    .map(|s| s.to_string())
    .collect();
    let mut p: i64 = 1;
    for _ in 0..12 {
        for d in [-1i64, 0, 1] {
            if p + d >= 0 {
                digit_strings.push((p + d).to_string());
            }
        }
        p *= 10;
    }
    for _ in 0..a.sz(300, 5000) {
        let n = rng.range(1, 13) as usize;
        let s: String = (0..n).map(|_| char::from_digit(rng.range(0, 9), 10).unwrap()).collect();
        digit_strings.push(s);
    }
    for s in &digit_strings {
        let v = cps(s);
        let ss = SmtString::from(s.as_str());
        let mut m = ev("to_int");
        m.insert("s".into(), json!(v));
        int_result(&mut m, guarded(|| str_to_int(&ss)));
        out.emit(Value::Object(m));
        let mut m = ev("is_digit");
        m.insert("s".into(), json!(v));
        bool_result(&mut m, guarded(|| str_is_digit(&ss)));
        out.emit(Value::Object(m));
        let mut m = ev("to_code");
        m.insert("s".into(), json!(v));
        int_result(&mut m, guarded(|| str_to_code(&ss)));
        out.emit(Value::Object(m));
    }
    let mut ints: Vec<i32> = vec![i32::MIN, -1, 0, 1, 9, 10, 99, 100, i32::MAX, i32::MAX - 1, 1000000000, 999999999];
    for _ in 0..a.sz(300, 5000) {
        ints.push(rng.next() as i32);
        ints.push((rng.next() % 100000) as i32);
    }
    for &i in &ints {
        let mut m = ev("from_int");
        m.insert("i".into(), json!(i));
        let r = guarded(|| str_from_int(i));
        let back = match &r {
            Ok(s) => guarded(|| str_to_int(s)),
            Err(e) => Err(e.clone()),
        };
        seq_result(&mut m, r);
        m.insert("back".into(), json!(back.clone().unwrap_or(0)));
        m.insert("back_panic".into(), json!(back.is_err()));
        out.emit(Value::Object(m));
    }
    for &i in &[i32::MIN, -1, 0, 0x2FFFF, 0x30000, 0x30001, 0x10FFFF, i32::MAX] {
        let mut m = ev("from_code");
        m.insert("i".into(), json!(i));
        seq_result(&mut m, guarded(|| str_from_code(i)));
        out.emit(Value::Object(m));
    }
    // every code point: to_code(from_code(x)) and |from_code(x)|, in batches
    let step = 4096u32;
    let mut lo = 0u32;
    while lo <= MAX_CHAR + 64 {
        let hi = (lo + step - 1).min(MAX_CHAR + 64);
        let mut tc = vec![];
        let mut fl = vec![];
        for x in lo..=hi {
            let s = str_from_code(x as i32);
            fl.push(s.len());
            tc.push(str_to_code(&s));
        }
        out.emit(json!({"op":"codes","lo":lo,"hi":hi,"tc":tc,"fl":fl}));
        lo = hi + 1;
    }
    let n = out.finish();
    println!("{{\"family\":\"c09\",\"profile\":\"{}\",\"events\":{},\"overflow_checks\":{}}}", profile, n, cfg!(debug_assertions));
}

fn ctor_event(via: &str, input: Vec<u32>, s: Result<SmtString, String>) -> Value {
    match s {
        Ok(s) => {
            let good = s.is_good();
            let re_ok = guarded(|| {
                let mut m = ReManager::new();
                let e = m.str(&s);
                m.str_in_re(&s, e)
            });
            json!({"op":"ctor","via":via,"in":input,"out":sv(&s),"good":good,"panic":false,
                "re_ok": re_ok.clone().unwrap_or(false), "re_panic": re_ok.is_err()})
        }
        Err(_) => json!({"op":"ctor","via":via,"in":input,"out":[],"good":false,"panic":true,"re_ok":false,"re_panic":false}),
    }
}

/// C17: constructors
pub fn drive_c17(a: &Args) {
    let mut rng = Rng::new(a.seed);
    let mut out = Out::create(&a.out, "c17_ctors.ndjson");
    // characters: plane boundaries, surrogate neighbours, the SMT limit, the Unicode limit
    let mut cands: Vec<u32> = vec![0, 1, 0x7F, 0x80, 0xD7FF, 0xE000, 0xFFFD, 0xFFFF, 0x10000, 0x1FFFF, 0x20000, 0x2FFFE, 0x2FFFF,
        0x30000, 0x30001, 0x3FFFF, 0x40000, 0xE0000, 0xFFFFF, 0x100000, 0x10FFFE, 0x10FFFF];
    let stride = a.sz(997, 1) as u32;
    let mut x = 0u32;
    while x <= 0x10FFFF {
        cands.push(x);
        x += stride;
    }
    let chars: Vec<char> = cands.iter().filter_map(|&c| char::from_u32(c)).collect();
    // single characters in batches (From<char>)
    for chunk in chars.chunks(2048) {
        let input: Vec<u32> = chunk.iter().map(|&c| c as u32).collect();
        let outs: Vec<Vec<u32>> = chunk.iter().map(|&c| sv(&SmtString::from(c))).collect();
        let goods: Vec<bool> = chunk.iter().map(|&c| SmtString::from(c).is_good()).collect();
        out.emit(json!({"op":"chars","via":"char","in":input,"outs":outs,"goods":goods}));
    }
    // strings mixing planes
    let special: Vec<char> = [0u32, 0x41, 0xFFFD, 0x2FFFF, 0x30000, 0x10FFFF, 0x5C, 0x22].iter().filter_map(|&c| char::from_u32(c)).collect();
    for _ in 0..a.sz(400, 6000) {
        let n = rng.range(0, 4) as usize;
        let s: String = (0..n).map(|_| if rng.coin(2, 3) { *rng.pick(&special) } else { *rng.pick(&chars) }).collect();
        let input = cps(&s);
        out.emit(ctor_event("str", input.clone(), guarded(|| SmtString::from(s.as_str()))));
        out.emit(ctor_event("string", input.clone(), guarded(|| SmtString::from(s.clone()))));
        out.emit(ctor_event("literal", input, guarded(|| parse_smt_literal(&s))));
    }
    // integers
    let ints = [0u32, 1, 0xFFFD, 0x2FFFF, 0x30000, 0x10FFFF, 0x110000, u32::MAX, u32::MAX - 1, 0x7FFFFFFF, 0x80000000];
    for &x in &ints {
        out.emit(ctor_event("u32", vec![x], guarded(|| SmtString::from(x))));
    }
    for _ in 0..a.sz(400, 6000) {
        let n = rng.range(0, 3) as usize;
        let v: Vec<u32> = (0..n).map(|_| if rng.coin(2, 3) { *rng.pick(&ints) } else { rng.next() as u32 }).collect();
        out.emit(ctor_event("slice", v.clone(), guarded(|| SmtString::from(&v[..]))));
        out.emit(ctor_event("vec", v.clone(), guarded(|| SmtString::from(v.clone()))));
        if v.len() == 2 {
            let arr = [v[0], v[1]];
            out.emit(ctor_event("array", v.clone(), guarded(|| SmtString::from(&arr))));
        }
    }
    // longer inputs (lengths around 8/16/32/64: block-wise code) with one or two invalid elements at the block
    // boundaries; values just above the limit, with only high bits set, and the largest
    let bad_vals = [0x30000u32, 0x3FFFF, 0x40000, 0x10FFFF, 0x110000, u32::MAX];
    for &len in &[7usize, 8, 9, 15, 16, 17, 20, 31, 32, 33, 64, 65] {
        let positions: Vec<usize> = vec![0, 5, 7, 8, 15, 16, 17, 31, 32, len - 1];
        for (pi, &p) in positions.iter().enumerate() {
            if p >= len {
                continue;
            }
            for (bi, &bv) in bad_vals.iter().enumerate() {
                if !a.thorough() && (pi + bi + len) % 2 != (a.seed as usize) % 2 {
                    continue;
                }
                let mut v: Vec<u32> = (0..len).map(|i| 0x61 + (i as u32 % 3)).collect();
                v[p] = bv;
                if bi % 2 == 1 && p + 1 < len {
                    v[len - 1] = 0x2FFFF;
                }
                out.emit(ctor_event("slice", v.clone(), guarded(|| SmtString::from(&v[..]))));
                out.emit(ctor_event("vec", v.clone(), guarded(|| SmtString::from(v.clone()))));
            }
        }
        let ok: Vec<u32> = (0..len).map(|i| if i % 5 == 0 { 0x2FFFF } else { 0x61 }).collect();
        out.emit(ctor_event("vec", ok.clone(), guarded(|| SmtString::from(ok.clone()))));
        // Rust strings of that many characters with a non-SMT character inside
        let s: String = (0..len).map(|i| if i == len / 2 { char::from_u32(0x30000).unwrap() } else { 'a' }).collect();
        out.emit(ctor_event("str", cps(&s), guarded(|| SmtString::from(s.as_str()))));
        out.emit(ctor_event("string", cps(&s), guarded(|| SmtString::from(s.clone()))));
    }
    let n = out.finish();
    println!("{{\"family\":\"c17\",\"events\":{}}}", n);
}

fn parse_event(x: &[u32]) -> Value {
    // the text as a Rust string (all symbols used here are valid scalar values)
    let chars: Vec<char> = x.iter().map(|&c| char::from_u32(c).unwrap()).collect();
    let mut prefixes = vec![];
    let mut panicked = false;
    for k in 0..=chars.len() {
        let t: String = chars[..k].iter().collect();
        match guarded(|| parse_smt_literal(&t)) {
            Ok(s) => prefixes.push(json!(sv(&s))),
            Err(_) => {
                panicked = true;
                prefixes.push(json!([]));
            }
        }
    }
    json!({"op":"parse","x":x,"prefixes":prefixes,"panic":panicked})
}

fn print_event(s: &[u32]) -> Value {
    let ss = mk(s);
    let shown = ss.to_string();
    let v = cps(&shown);
    let quoted = v.len() >= 2 && v[0] == 34 && v[v.len() - 1] == 34;
    let body: Vec<u32> = if quoted { v[1..v.len() - 1].to_vec() } else { v.clone() };
    let back = sv(&parse_smt_literal(&undouble(&body)));
    json!({"op":"print","s":s,"body":body,"quoted":quoted,"reparsed":back})
}

/// what a reader of the literal does with doubled quotes (lexical level of SMT-LIB); the
/// validator redoes this in TLA+ and only uses `reparsed` as an extra observation of the crate
fn undouble(body: &[u32]) -> String {
    let mut out = String::new();
    let mut i = 0;
    while i < body.len() {
        if body[i] == 34 && i + 1 < body.len() && body[i + 1] == 34 {
            out.push('"');
            i += 2;
        } else {
            out.push(char::from_u32(body[i]).unwrap_or('?'));
            i += 1;
        }
    }
    out
}

/// C08: literal parsing (every prefix) and printing
pub fn drive_c08(a: &Args) {
    let mut rng = Rng::new(a.seed);
    let mut out = Out::create(&a.out, "c08_literals.ndjson");
    // (the ninth symbol is the capital U: a case-insensitive test of the escape letter would accept it)
    let sym: [u32; 9] = [92, 117, 123, 125, 48, 51, 102, 103, 85];
    // all texts up to a length over the eight critical symbols
    for t in all_strings(&sym, a.sz(4, 5)) {
        out.emit(parse_event(&t));
    }
    // escape-attempt family
    let digits = [48u32, 50, 51, 70];
    let ctx: [Vec<u32>; 3] = [vec![], vec![92], vec![48]];
    let mut digit_seqs = all_strings(&digits, a.sz(5, 6));
    // six and seven digits with leading zeros: the value fits, the digit count does not
    for (k, ds) in all_strings(&digits, 5).into_iter().enumerate() {
        if ds.len() == 5 && (a.thorough() || k % 4 == (a.seed as usize) % 4) {
            let mut six = vec![48];
            six.extend(ds.iter());
            let mut seven = vec![48, 48];
            seven.extend(ds.iter());
            digit_seqs.push(six);
            digit_seqs.push(seven);
        }
    }
    digit_seqs.push(vec![48, 48, 48, 48, 52, 49]);
    digit_seqs.push(vec![48, 49, 70, 54, 48, 48]);
    for (di, ds) in digit_seqs.into_iter().enumerate() {
        for open in [false, true] {
            for close in [false, true] {
                let (pre, post) = if a.thorough() { (rng.pick(&ctx).clone(), rng.pick(&ctx).clone()) } else { (vec![], rng.pick(&ctx).clone()) };
                // every attempt with the escape letter u; every fourth one ALSO with a capital U (never an escape)
                for letter in [117u32, 85] {
                    if letter == 85 && di % 4 != 0 {
                        continue;
                    }
                    let mut t = pre.clone();
                    t.extend([92, letter]);
                    if open {
                        t.push(123);
                    }
                    t.extend(ds.iter());
                    if close {
                        t.push(125);
                    }
                    t.extend(post.iter());
                    out.emit(parse_event(&t));
                }
            }
        }
    }
    // braces at EVERY position of an attempt: `\u D1 { D2 } D3` for all splits of a digit string of length <= 4 (only
    // the split with D1 empty is the braced escape; a brace after one or more digits is an ordinary character)
    for (k, ds) in all_strings(&[48u32, 52, 70], 4).into_iter().enumerate() {
        for i in 0..=ds.len() {
            for j in i..=ds.len() {
                if !a.thorough() && (k + i + j) % 2 != (a.seed as usize) % 2 && !(i >= 1 && ds[..i].iter().all(|&d| d == 48)) {
                    continue;
                }
                let mut t = vec![92, 117];
                t.extend(ds[..i].iter());
                t.push(123);
                t.extend(ds[i..j].iter());
                t.push(125);
                t.extend(ds[j..].iter());
                out.emit(parse_event(&t));
            }
        }
    }
    // a backslash followed by ANY printable ASCII character (the escape letters of other languages: x, U, n, t, 0, ...)
    // and then what would be the payload of an escape there: only `\u` is an escape
    for c in (0x20u32..0x7F).chain([0xE9, 0x2028]) {
        for payload in [vec![], vec![52], vec![52, 49], vec![48, 52, 49], vec![48, 48, 52, 49], vec![123, 52, 49, 125], vec![48, 48, 48, 48, 48, 48, 52, 49]] {
            if c == 117 && !payload.is_empty() {
                continue; // the real escapes are covered above
            }
            let mut t = vec![92, c];
            t.extend(payload.iter());
            out.emit(parse_event(&t));
        }
    }
    // well-formed escapes for code points all over the alphabet (every landmark and its neighbours, a stride; every
    // code point in the thorough tier): braced in lower case, upper case and zero-padded, and the four-digit form
    {
        let mut xs: Vec<u32> = vec![];
        for &l in crate::util::LANDMARKS.iter() {
            xs.extend([l.saturating_sub(1), l, (l + 1).min(MAX_CHAR)]);
        }
        let stride = a.sz(997, 1) as usize;
        xs.extend((0..=MAX_CHAR).step_by(stride).map(|x| (x + (a.seed as u32 % 7)).min(MAX_CHAR)));
        xs.extend([0x22, 0x5C, 0x7F, 0x80, 0xA0, 0xFFFC, 0x2FFFD]);
        xs.sort();
        xs.dedup();
        for &x in &xs {
            let forms: Vec<String> = if a.thorough() && stride == 1 && !crate::util::LANDMARKS.contains(&x) {
                vec![format!("\\u{{{:x}}}", x)]
            } else {
                let mut f = vec![format!("\\u{{{:x}}}", x), format!("\\u{{{:X}}}", x), format!("\\u{{{:05x}}}", x), format!("\\u{{{:x}}}z", x)];
                if x <= 0xFFFF {
                    f.push(format!("\\u{:04x}", x));
                    f.push(format!("\\u{:04X}", x));
                }
                f
            };
            for f in forms {
                let t: Vec<u32> = f.chars().map(|c| c as u32).collect();
                out.emit(parse_event(&t));
            }
        }
    }
    // two consecutive escape attempts: a malformed one (with digits already read) followed by a
    // well-formed one -- whatever the first left behind must not leak into the second
    let firsts: Vec<Vec<u32>> = {
        let mut f = vec![];
        for ds in all_strings(&[50, 67, 70], 3) {
            let mut x = vec![92, 117];
            x.extend(ds.iter());
            f.push(x.clone());
            let mut y = vec![92, 117, 123];
            y.extend(ds.iter());
            f.push(y);
        }
        f.push(vec![92, 117, 123, 51, 102, 102, 102, 102, 125]); // \u{3ffff} : out of range
        // unclosed braced attempts with four, five and six digits (the longest ones the parser follows)
        for k in 4..=6usize {
            for d in [48u32, 51, 70] {
                let mut y = vec![92, 117, 123];
                y.extend(std::iter::repeat(d).take(k));
                f.push(y);
            }
        }
        f
    };
    let seconds: Vec<Vec<u32>> = vec![
        vec![92, 117, 48, 48, 52, 49],
        vec![92, 117, 123, 52, 49, 125],
        vec![92, 117, 123, 50, 70, 70, 70, 70, 125],
        vec![92, 117, 70, 70, 70, 70],
        vec![92, 117, 123, 48, 125],
    ];
    for (k, f) in firsts.iter().enumerate() {
        for (j, s2) in seconds.iter().enumerate() {
            if a.thorough() || (k + j) % 2 == (a.seed as usize) % 2 {
                let mut t = f.clone();
                t.extend(s2.iter());
                t.push(99);
                out.emit(parse_event(&t));
            }
        }
    }
    // long texts (lengths around 16/32/64) with an escape, a failed attempt or a lone backslash straddling each
    // block boundary
    for &b in &[16usize, 32, 64] {
        let pieces: Vec<Vec<u32>> = vec![
            vec![92, 117, 48, 48, 52, 49], vec![92, 117, 123, 52, 49, 125], vec![92, 117, 123, 51, 102, 102, 102, 102, 125],
            vec![92], vec![92, 117], vec![92, 117, 123, 52, 49], vec![34, 34],
        ];
        for p in &pieces {
            for shift in 0..=p.len() {
                if b < shift {
                    continue;
                }
                let mut t: Vec<u32> = (0..b - shift).map(|i| 0x61 + (i as u32 % 3)).collect();
                t.extend(p.iter());
                t.extend([0x7A, 0x7A, 0x7A]);
                out.emit(parse_event(&t));
                // the same code points as a string to print
                out.emit(print_event(&t));
            }
        }
    }
    // a character that is NOT an SMT-LIB character (and the replacement character itself) after every prefix of
    // every kind of escape attempt: it is replaced by U+FFFD wherever the parser is
    for base in [vec![92u32, 117, 123, 51, 102, 102, 102, 102, 125], vec![92, 117, 123, 51, 48, 48, 48, 48], vec![92, 117, 123, 50, 102, 102, 102, 102, 125],
                 vec![92, 117, 48, 48, 52, 49], vec![92, 117, 123, 52, 49, 125], vec![92, 117, 123, 102, 102, 102, 102, 102, 102], vec![92, 92]] {
        for p in 0..=base.len() {
            for x in [0x30000u32, 0x10FFFF, 0xE0041, 0xFFFD] {
                let mut t = base[..p].to_vec();
                t.push(x);
                t.extend(base[p..].iter());
                out.emit(parse_event(&t));
            }
        }
    }
    // characters that text "hygiene" would strip, trim or normalise (byte order mark, blanks, line ends, zero-width
    // and no-break spaces, NUL, DEL) are ordinary SMT-LIB characters: at the start, at the end, doubled, around escapes
    {
        let hyg = [0xFEFFu32, 0x20, 0x09, 0x0A, 0x0D, 0x00, 0x7F, 0x85, 0xA0, 0x200B, 0x2028, 0xFFFE, 0x61];
        for t in all_strings(&hyg, 2) {
            out.emit(parse_event(&t));
            let mut with_esc = t.clone();
            with_esc.extend([92, 117, 123, 52, 49, 125]);
            with_esc.extend(t.iter());
            out.emit(parse_event(&with_esc));
        }
        for &h in &hyg {
            for body in [vec![97u32, 98], vec![92, 117, 48, 48, 52, 49], vec![34, 34]] {
                let mut t = vec![h];
                t.extend(body.iter());
                t.push(h);
                out.emit(parse_event(&t));
                // the same code points as a string: printed and read back
                out.emit(print_event(&t));
            }
        }
    }
    // what number parsers of standard libraries accept but SMT-LIB does not: a sign, blanks, underscores, a radix
    // prefix in the digit positions of an escape
    for pre in [vec![43u32], vec![45], vec![32], vec![95], vec![48, 120], vec![48, 88], vec![9]] {
        for digits in [vec![52u32, 49], vec![48, 52, 49], vec![50, 102, 102, 102], vec![52], vec![48, 48, 52, 49]] {
            for post in [vec![], vec![32u32], vec![95]] {
                let mut inner = pre.clone();
                inner.extend(digits.iter());
                inner.extend(post.iter());
                let mut braced = vec![92, 117, 123];
                braced.extend(inner.iter());
                braced.push(125);
                out.emit(parse_event(&braced));
                if inner.len() == 4 {
                    let mut four = vec![92, 117];
                    four.extend(inner.iter());
                    four.push(122);
                    out.emit(parse_event(&four));
                }
            }
        }
    }
    // look-alikes by truncation: a well-formed escape in which ONE character is replaced by the character with the
    // same low 8 / low 16 bits (a parser that narrows characters before classifying them takes it for the original)
    for base in [vec![92u32, 117, 48, 48, 52, 49], vec![92, 117, 123, 52, 49, 125], vec![92, 117, 123, 49, 102, 54, 48, 48, 125],
                 vec![92, 117, 70, 70, 70, 70], vec![97, 92, 117, 123, 65, 125, 98]] {
        for pos in 0..base.len() {
            for off in [0x100u32, 0x400, 0x10000, 0x20000] {
                let mut t = base.clone();
                t[pos] += off;
                if char::from_u32(t[pos]).is_some() {
                    out.emit(parse_event(&t));
                }
            }
        }
    }
    // random texts with non-ASCII and non-SMT characters
    let extra = [0x41u32, 0x22, 0xE9, 0x3A3, 0xFFFD, 0x1F600, 0x2FFFF, 0x30000, 0x10FFFF, 0x20, 0x7F];
    for _ in 0..a.sz(600, 10000) {
        let n = rng.range(0, 10) as usize;
        let t: Vec<u32> = (0..n).map(|_| if rng.coin(3, 5) { *rng.pick(&sym) } else if rng.coin(1, 2) { *rng.pick(&digits) } else { *rng.pick(&extra) }).collect();
        out.emit(parse_event(&t));
    }
    // printing: strings whose content spells escapes
    let content = [92u32, 117, 123, 125, 52, 49, 34, 0x7F, 0x1F, 0xFF, 0xFFFF, 0x10000, MAX_CHAR];
    for s in all_strings(&content, a.sz(2, 3)) {
        out.emit(print_event(&s));
    }
    // content that spells an escape sequence: must not print as the literal of a different string
    for ds in all_strings(&[52, 49, 70], a.sz(3, 5)) {
        if ds.is_empty() {
            continue;
        }
        let mut braced = vec![92, 117, 123];
        braced.extend(ds.iter());
        braced.push(125);
        out.emit(print_event(&braced));
        if ds.len() >= 3 {
            let mut four = vec![92, 117, 48];
            four.extend(ds.iter().take(3));
            four.push(65);
            out.emit(print_event(&four));
        }
        let mut inner = vec![97, 92];
        inner.extend(braced.iter());
        out.emit(print_event(&inner));
    }
    // code points that are special in OTHER encodings (UTF-16 surrogates, the replacement character, the byte
    // order mark) are ordinary SMT-LIB characters: every short sequence of them prints and reads back as itself
    let specials = [0xD800u32, 0xD83D, 0xDBFF, 0xDC00, 0xDE00, 0xDFFF, 0xFFFD, 0xFEFF, 0x61];
    for s in all_strings(&specials, a.sz(2, 3)) {
        out.emit(print_event(&s));
    }
    // spelled escapes over representatives of every class of hex digit (0-9, a-f, A-F) and their non-hex
    // neighbours, in each position: four-digit form complete, braced form up to three digits complete
    let hexish = [48u32, 57, 97, 102, 65, 70, 103, 71];
    for ds in all_strings(&hexish, 4) {
        if ds.is_empty() {
            continue;
        }
        if ds.len() == 4 {
            let mut four = vec![92, 117];
            four.extend(ds.iter());
            out.emit(print_event(&four));
        }
        if ds.len() <= 3 || (a.thorough() && ds.len() == 4) {
            let mut braced = vec![92, 117, 123];
            braced.extend(ds.iter());
            braced.push(125);
            out.emit(print_event(&braced));
        }
    }
    for s in [cps("\\u{41}"), cps("\\u0041"), cps("\\u{2ffff}"), cps("\\\\u0041"), cps("a\"\"b"), cps("\"")] {
        out.emit(print_event(&s));
    }
    for _ in 0..a.sz(500, 8000) {
        let n = rng.range(0, 8) as usize;
        let s: Vec<u32> = (0..n).map(|_| if rng.coin(1, 2) { *rng.pick(&content) } else { rng.ch() }).collect();
        out.emit(print_event(&s));
    }
    // every single code point (stride in the quick tier): Display, smt_char_as_string, char_to_smt
    let stride = a.sz(61, 1) as u32;
    let mut batch = vec![];
    let mut x = 0u32;
    let flush = |out: &mut Out, batch: &mut Vec<Value>| {
        if !batch.is_empty() {
            out.emit(json!({"op":"printchars","items":batch.clone()}));
            batch.clear();
        }
    };
    while x <= MAX_CHAR {
        let d = cps(&mk(&[x]).to_string());
        batch.push(json!({"x":x,"d":d,"a":cps(&smt_char_as_string(x)),"b":cps(&char_to_smt(x))}));
        if batch.len() == 256 {
            flush(&mut out, &mut batch);
        }
        x += if x < 300 || x > MAX_CHAR - 300 || (0xFF00..0x10100).contains(&x) { 1 } else { stride };
    }
    flush(&mut out, &mut batch);
    let n = out.finish();
    println!("{{\"family\":\"c08\",\"events\":{}}}", n);
}

//! C11 / C12: CharPartition objects, queries and merges.
//! `replay partitions` executes TLC-generated behaviours of the PartitionObj state machine
//! (MC_PartGen) on the real crate under block embeddings; `drive partitions` adds seeded random
//! partitions over real code points.  Events are judged by Trace_Partitions.tla.
use crate::charsets::endpoints;
use crate::dump::cid_json;
use crate::util::*;
use aws_smt_strings::character_sets::*;
use serde_json::{json, Value};

type Iv = (u32, u32);

fn proj(p: &CharPartition) -> Value {
    let n = p.len();
    let ivs: Vec<Value> = (0..n).map(|i| { let (a, b) = p.get(i); json!([a, b]) }).collect();
    let ranges: Vec<Value> = p.ranges().map(|c| { let (a, b) = endpoints(c); json!([a, b]) }).collect();
    let starts: Vec<u32> = (0..n).map(|i| p.start(i)).collect();
    let ends: Vec<u32> = (0..n).map(|i| p.end(i)).collect();
    let ids: Vec<i64> = p.class_ids().map(cid_json).collect();
    let picks: Vec<u32> = p.picks().collect();
    let mut valid = vec![];
    for cid in [ClassId::Complement, ClassId::Interval(0), ClassId::Interval(n.saturating_sub(1)), ClassId::Interval(n), ClassId::Interval(n + 5)] {
        valid.push(json!({"cid": cid_json(cid), "v": p.valid_class_id(cid)}));
    }
    json!({"ivs": ivs, "ranges": ranges, "starts": starts, "ends": ends, "len": n, "is_empty": p.is_empty(),
        "witness": p.pick_complement(), "empty_comp": p.empty_complement(), "nclasses": p.num_classes(),
        "ids": ids, "picks": picks, "valid": valid})
}

fn cover_json(p: &CharPartition, a: u32, b: u32) -> Value {
    let s = CharSet::range(a, b);
    let (cover, idx) = match guarded(|| p.interval_cover(&s)) {
        Ok(CoverResult::CoveredBy(i)) => ("in", i as i64),
        Ok(CoverResult::DisjointFromAll) => ("disjoint", -1),
        Ok(CoverResult::Overlaps) => ("overlaps", -1),
        Err(_) => ("panic", -1),
    };
    let (cls, cid) = match guarded(|| p.class_of_set(&s)) {
        Ok(Ok(c)) => ("ok".to_string(), cid_json(c)),
        Ok(Err(e)) => (format!("err:{:?}", e), -2),
        Err(_) => ("panic".to_string(), -2),
    };
    let good = guarded(|| p.good_char_set(&s)).unwrap_or(false);
    json!({"a": a, "b": b, "cover": cover, "idx": idx, "cls": cls, "cid": cid, "good": good})
}

fn queries(p: &CharPartition, chars: &[u32], sets: &[Iv]) -> (Vec<Value>, Vec<Value>) {
    let cq: Vec<Value> = chars
        .iter()
        .map(|&x| match guarded(|| p.class_of_char(x)) {
            Ok(c) => json!({"x": x, "cid": cid_json(c)}),
            Err(_) => json!({"x": x, "cid": -9}),
        })
        .collect();
    let sq: Vec<Value> = sets.iter().map(|&(a, b)| cover_json(p, a, b)).collect();
    (cq, sq)
}

fn ivs_json(v: &[Iv]) -> Value {
    json!(v.iter().map(|&(a, b)| json!([a, b])).collect::<Vec<_>>())
}

/// run one behaviour of the state machine; returns the record
fn run_behaviour(route: &str, ivs: &[Iv], chars: &[u32], sets: &[Iv]) -> Value {
    let r = guarded(|| {
        let mut steps = vec![];
        match route {
            "push" | "from_set" => {
                let mut p;
                let rest: &[Iv];
                if route == "push" {
                    p = CharPartition::new();
                    rest = ivs;
                } else {
                    p = CharPartition::from_set(&CharSet::range(ivs[0].0, ivs[0].1));
                    rest = &ivs[1..];
                }
                steps.push(proj(&p));
                // queries interleaved with the pushes: the first and last character of the interval about to be
                // pushed, asked right before and right after the push (nothing else in between)
                let mut probes = vec![];
                for &(a, b) in rest {
                    let before = [cid_json(p.class_of_char(b)), cid_json(p.class_of_char(a))];
                    p.push(a, b);
                    let after = [cid_json(p.class_of_char(a)), cid_json(p.class_of_char(b)), cid_json(p.class_of_char(a))];
                    probes.push(json!({"a": a, "b": b, "before": before, "after": after}));
                    steps.push(proj(&p));
                }
                let (cq, sq) = queries(&p, chars, sets);
                json!({"op":"part","route":route,"ivs":ivs_json(ivs),"res":"ok","steps":steps,"probes":probes,"chars":cq,"sets":sq})
            }
            "list+push" => {
                // a mixed history: the first half through try_from_list (given in reverse order), the rest pushed
                let k = (ivs.len() + 1) / 2;
                let mut first: Vec<CharSet> = ivs[..k].iter().map(|&(a, b)| CharSet::range(a, b)).collect();
                first.reverse();
                let mut p = CharPartition::try_from_list(&first).map_err(|e| format!("{:?}", e)).expect("disjoint by construction");
                let mut steps = vec![proj(&p)];
                let mut probes = vec![];
                for &(a, b) in &ivs[k..] {
                    let before = [cid_json(p.class_of_char(b)), cid_json(p.class_of_char(a))];
                    p.push(a, b);
                    let after = [cid_json(p.class_of_char(a)), cid_json(p.class_of_char(b)), cid_json(p.class_of_char(a))];
                    probes.push(json!({"a": a, "b": b, "before": before, "after": after}));
                    steps.push(proj(&p));
                }
                let (cq, sq) = queries(&p, chars, sets);
                json!({"op":"part","route":"list+push","k":k,"ivs":ivs_json(ivs),"res":"ok","steps":steps,"probes":probes,"chars":cq,"sets":sq})
            }
            _ => {
                let list: Vec<CharSet> = ivs.iter().map(|&(a, b)| CharSet::range(a, b)).collect();
                let r1 = CharPartition::try_from_list(&list);
                // try_from_iter takes any IntoIterator: exact size hint, lower bound 0 (filter), unknown size (from_fn)
                let r2 = match ivs.len() % 3 {
                    0 => CharPartition::try_from_iter(list.iter().copied()),
                    1 => CharPartition::try_from_iter(list.iter().copied().filter(|_| true)),
                    _ => {
                        let mut it = list.clone().into_iter();
                        CharPartition::try_from_iter(std::iter::from_fn(move || it.next()))
                    }
                };
                let same = match (&r1, &r2) {
                    (Ok(x), Ok(y)) => x == y,
                    (Err(x), Err(y)) => x == y,
                    _ => false,
                };
                match r1 {
                    Ok(p) => {
                        let (cq, sq) = queries(&p, chars, sets);
                        json!({"op":"part","route":"list","ivs":ivs_json(ivs),"res":"ok","iter_same":same,"steps":[proj(&p)],"chars":cq,"sets":sq})
                    }
                    Err(e) => json!({"op":"part","route":"list","ivs":ivs_json(ivs),"res":format!("err:{:?}", e),"iter_same":same,"steps":[],"chars":[],"sets":[]}),
                }
            }
        }
    });
    match r {
        Ok(v) => v,
        Err(msg) => json!({"op":"panic","route":route,"ivs":ivs_json(ivs),"where":"partition object","msg":msg}),
    }
}

fn build(ivs: &[Iv]) -> CharPartition {
    let mut p = CharPartition::new();
    for &(a, b) in ivs {
        p.push(a, b);
    }
    p
}

fn merge_record(p1: &[Iv], p2: &[Iv]) -> Value {
    let r = guarded(|| {
        let m = merge_partitions(&build(p1), &build(p2));
        proj(&m)
    });
    match r {
        Ok(m) => json!({"op":"merge","p1":ivs_json(p1),"p2":ivs_json(p2),"m":m}),
        Err(msg) => json!({"op":"panic","p1":ivs_json(p1),"p2":ivs_json(p2),"where":"merge_partitions","msg":msg}),
    }
}

fn mergelist_record(ps: &[Vec<Iv>]) -> Value {
    let r = guarded(|| {
        let built: Vec<CharPartition> = ps.iter().map(|p| build(p)).collect();
        proj(&merge_partition_list(built.iter()))
    });
    let pj: Vec<Value> = ps.iter().map(|p| ivs_json(p)).collect();
    match r {
        Ok(m) => json!({"op":"mergelist","ps":pj,"m":m}),
        Err(msg) => json!({"op":"panic","ps":pj,"where":"merge_partition_list","msg":msg}),
    }
}

struct Scen {
    route: String,
    ivs: Vec<Iv>,
}

fn read_scen(path: &str) -> Vec<Scen> {
    let text = std::fs::read_to_string(path).expect("scenario file");
    let mut v = vec![];
    for line in text.lines() {
        if line.trim().is_empty() {
            continue;
        }
        let j: Value = serde_json::from_str(line).expect("scenario json");
        let ivs = j["ivs"].as_array().unwrap().iter().map(|p| (p[0].as_u64().unwrap() as u32, p[1].as_u64().unwrap() as u32)).collect();
        v.push(Scen { route: j["route"].as_str().unwrap().to_string(), ivs });
    }
    v
}

fn embed(l: &Layout, ivs: &[Iv]) -> Vec<Iv> {
    ivs.iter().map(|&(a, b)| (l.lo(a), l.hi(b))).collect()
}

/// spec -> implementation: TLC-generated behaviours
pub fn replay(a: &Args) {
    let scen_path = a.rest.iter().position(|x| x == "--scen").map(|i| a.rest[i + 1].clone()).expect("--scen FILE");
    let m: u32 = a.rest.iter().position(|x| x == "--model-max").map(|i| a.rest[i + 1].parse().unwrap()).unwrap_or(6);
    let scen = read_scen(&scen_path);
    let mut rng = Rng::new(a.seed);
    let mut out = Out::create(&a.out, "part_objects.ndjson");
    let mut mo = Out::create(&a.out, "part_merges.ndjson");
    let nlay = a.sz(2, 5);
    let layouts: Vec<Layout> = (0..nlay).map(|i| if i == 1 { Layout::edges(m) } else { Layout::new(m, &mut rng, i == 0) }).collect();
    let mut parts: Vec<Vec<Iv>> = vec![];
    for (k, s) in scen.iter().enumerate() {
        if s.route == "push" {
            parts.push(s.ivs.clone());
        }
        for (li, lay) in layouts.iter().enumerate() {
            // list behaviours: one layout each (alternating); object behaviours: every layout
            if s.route == "list" && (k + li) % nlay != 0 {
                continue;
            }
            let ivs = embed(lay, &s.ivs);
            let (mut chars, mut sets) = (vec![], vec![]);
            if s.route != "list" || k % 9 == 0 {
                for i in 0..=m {
                    chars.extend(lay.probes(i, &mut rng));
                }
                for lo in 0..=m {
                    for hi in lo..=m {
                        sets.push((lay.lo(lo), lay.hi(hi)));
                        // a set that starts / ends strictly inside a block
                        if lay.hi(lo) > lay.lo(lo) && rng.coin(1, 3) {
                            let x = rng.range(lay.lo(lo) + 1, lay.hi(lo));
                            if x <= lay.hi(hi) {
                                sets.push((x, lay.hi(hi)));
                            }
                        }
                        if lay.hi(hi) > lay.lo(hi) && rng.coin(1, 3) {
                            let y = rng.range(lay.lo(hi), lay.hi(hi) - 1);
                            if y >= lay.lo(lo) {
                                sets.push((lay.lo(lo), y));
                            }
                        }
                    }
                }
            }
            out.emit(run_behaviour(&s.route, &ivs, &chars, &sets));
        }
    }
    // C12: every ordered pair of the generated partitions, under alternating layouts
    let stride = match a.rest.iter().position(|x| x == "--pair-stride") {
        Some(i) => a.rest[i + 1].parse().unwrap(),
        None => 1usize,
    };
    let mut k = 0usize;
    for p1 in &parts {
        for p2 in &parts {
            k += 1;
            if k % stride != 0 {
                continue;
            }
            let lay = &layouts[(k / stride) % nlay];
            mo.emit(merge_record(&embed(lay, p1), &embed(lay, p2)));
        }
    }
    // lists: every permutation of triples drawn from a reduced set, [] and the neutral element
    mo.emit(mergelist_record(&[]));
    let red: Vec<&Vec<Iv>> = parts.iter().step_by((parts.len() / 14).max(1)).collect();
    let lay = &layouts[0];
    for x in &red {
        mo.emit(mergelist_record(&[embed(lay, x)]));
        mo.emit(mergelist_record(&[vec![], embed(lay, x)]));
        mo.emit(mergelist_record(&[embed(lay, x), vec![]]));
        for y in &red {
            for z in &red {
                let (ex, ey, ez) = (embed(lay, x), embed(lay, y), embed(lay, z));
                for perm in [[0, 1, 2], [0, 2, 1], [1, 0, 2], [1, 2, 0], [2, 0, 1], [2, 1, 0]] {
                    let all = [ex.clone(), ey.clone(), ez.clone()];
                    mo.emit(mergelist_record(&[all[perm[0]].clone(), all[perm[1]].clone(), all[perm[2]].clone()]));
                }
            }
        }
    }
    let (n1, n2) = (out.finish(), mo.finish());
    println!("{{\"family\":\"partitions-replay\",\"behaviours\":{},\"objects\":{},\"merges\":{}}}", scen.len(), n1, n2);
}

fn random_partition(rng: &mut Rng, maxn: u32) -> Vec<Iv> {
    let n = rng.range(0, maxn);
    let mut pts: Vec<u32> = (0..2 * n).map(|_| rng.ch()).collect();
    pts.sort();
    let mut v: Vec<Iv> = vec![];
    let mut i = 0;
    while i + 1 < pts.len() {
        let (a, b) = (pts[i], pts[i + 1]);
        match v.last() {
            Some(&(_, pe)) if a <= pe => {}
            _ => v.push((a, b)),
        }
        i += 2;
    }
    // sometimes make neighbours adjacent, or touch the ends of the alphabet
    if rng.coin(1, 3) && v.len() >= 2 {
        let k = rng.below(v.len() as u64 - 1) as usize;
        if v[k].1 + 1 <= v[k + 1].1 {
            v[k + 1].0 = v[k].1 + 1;
        }
    }
    if rng.coin(1, 4) && !v.is_empty() {
        v[0].0 = 0;
    }
    if rng.coin(1, 4) && !v.is_empty() {
        let l = v.len() - 1;
        v[l].1 = MAX_CHAR;
    }
    v
}

/// implementation -> spec on real code points
pub fn drive(a: &Args) {
    let mut rng = Rng::new(a.seed ^ 0xABCD);
    let mut out = Out::create(&a.out, "part_random.ndjson");
    let mut mo = Out::create(&a.out, "part_random_merges.ndjson");
    let n = a.sz(400, 6000);
    for i in 0..n {
        let ivs = random_partition(&mut rng, 12);
        let mut pts: Vec<u32> = vec![0, MAX_CHAR];
        for &(lo, hi) in &ivs {
            for x in [lo.saturating_sub(1), lo, hi, (hi + 1).min(MAX_CHAR)] {
                pts.push(x);
            }
        }
        pts.sort();
        pts.dedup();
        let mut sets = vec![];
        for (k, &x) in pts.iter().enumerate() {
            for &y in &pts[k..] {
                if pts.len() <= 14 || rng.coin(1, 3) {
                    sets.push((x, y));
                }
            }
        }
        let mut chars = pts.clone();
        for _ in 0..4 {
            chars.push(rng.ch());
        }
        if ivs.len() >= 2 {
            out.emit(run_behaviour("list+push", &ivs, &chars, &sets));
        }
        match i % 3 {
            0 => out.emit(run_behaviour("push", &ivs, &chars, &sets)),
            1 if !ivs.is_empty() => out.emit(run_behaviour("from_set", &ivs, &chars, &sets)),
            _ => {
                // shuffled, sometimes with an overlapping extra interval
                let mut l = ivs.clone();
                for k in (1..l.len()).rev() {
                    let j = rng.below(k as u64 + 1) as usize;
                    l.swap(k, j);
                }
                if rng.coin(1, 3) && !l.is_empty() {
                    let (lo, hi) = *rng.pick(&ivs);
                    let x = rng.range(lo, hi);
                    l.push((x, (x + rng.range(0, 9)).min(MAX_CHAR)));
                }
                out.emit(run_behaviour("list", &l, &chars, &sets));
            }
        }
        let other = random_partition(&mut rng, 8);
        mo.emit(merge_record(&ivs, &other));
        if i % 4 == 0 {
            let third = random_partition(&mut rng, 5);
            mo.emit(mergelist_record(&[ivs.clone(), other.clone(), third.clone()]));
            mo.emit(mergelist_record(&[third, ivs.clone(), other]));
        }
    }
    // mixed histories on small shapes: start at 0 or not, interior gap or not, last push ending at MAX_CHAR or not
    for start0 in [true, false] {
        for gap in [true, false] {
            for to_max in [true, false] {
                for n in 2..=4u32 {
                    let mut ivs: Vec<Iv> = vec![];
                    let mut lo = if start0 { 0 } else { 2 };
                    for k in 0..n {
                        let hi = if k == n - 1 && to_max { MAX_CHAR } else { lo + 2 };
                        ivs.push((lo, hi));
                        lo = hi + if gap && k == 0 { 2 } else { 1 };
                    }
                    let chars: Vec<u32> = vec![0, 1, 2, 3, 4, 5, 6, 7, 8, 9, 10, MAX_CHAR - 1, MAX_CHAR];
                    let sets: Vec<Iv> = vec![(0, 0), (0, MAX_CHAR), (3, 4), (4, 4), (5, MAX_CHAR), (MAX_CHAR, MAX_CHAR)];
                    out.emit(run_behaviour("list+push", &ivs, &chars, &sets));
                }
            }
        }
    }
    // partitions cut at landmark code points: every single interval between two landmarks, and every tiling by three
    // consecutive landmark cuts; picks and classes are queried at both ends of every interval
    {
        let lm = LANDMARKS;
        let mut k = 0usize;
        for (i, &lo) in lm.iter().enumerate() {
            for &hi in &lm[i..] {
                let ivs: Vec<Iv> = vec![(lo, hi)];
                let chars = vec![lo.saturating_sub(1), lo, hi, (hi + 1).min(MAX_CHAR), 0, MAX_CHAR];
                let sets = vec![(lo, hi), (lo, lo), (hi, hi), (0, MAX_CHAR)];
                let route = ["push", "from_set", "list"][k % 3];
                k += 1;
                out.emit(run_behaviour(route, &ivs, &chars, &sets));
            }
        }
        for w in lm.windows(4) {
            let ivs: Vec<Iv> = vec![(w[0], w[1] - 1), (w[1], w[2] - 1), (w[2], w[3])].into_iter().filter(|iv| iv.0 <= iv.1).collect();
            let mut chars = vec![0, MAX_CHAR];
            let mut sets = vec![];
            for &(lo, hi) in &ivs {
                chars.extend([lo.saturating_sub(1), lo, hi, (hi + 1).min(MAX_CHAR)]);
                sets.extend([(lo, hi), (lo, (hi + 1).min(MAX_CHAR))]);
            }
            out.emit(run_behaviour("push", &ivs, &chars, &sets));
            out.emit(run_behaviour("list", &ivs, &chars, &sets));
            mo.emit(merge_record(&ivs[..1], &ivs[1..]));
        }
    }
    // long partitions (binary-search depth grows with the length): every interval queried at its own boundaries
    let maxlen = a.sz(40, 130);
    for n in (1..=maxlen).chain([255usize, 256, 257, 300]) {
        for shape in 0..3u32 {
            let ivs: Vec<Iv> = (0..n as u32)
                .map(|k| match shape {
                    0 => (10 * k + 5, 10 * k + 8),
                    1 => (10 * k, 10 * k + 9),
                    _ => (3 * k + 1, 3 * k + 1),
                })
                .collect();
            let mut sets = vec![];
            let mut chars = vec![0, MAX_CHAR];
            for &(lo, hi) in &ivs {
                for s in [(lo, lo), (lo, hi), (hi, hi), (lo, hi + 1), (lo.saturating_sub(1), lo), ((lo + 1).min(hi), hi), (hi + 1, hi + 1)] {
                    sets.push(s);
                }
                for x in [lo.saturating_sub(1), lo, hi, hi + 1] {
                    chars.push(x);
                }
            }
            chars.sort();
            chars.dedup();
            let route = ["push", "from_list", "list"][(n % 3) as usize];
            let route = if route == "from_list" { "list" } else { route };
            out.emit(run_behaviour(route, &ivs, &chars, &sets));
        }
    }
    // long lists for try_from_list / try_from_iter with ONE overlapping or duplicated interval somewhere, in several
    // scrambled orders (sorting routines change strategy with the length): must be rejected, never panic
    for &n in &[9usize, 16, 17, 20, 21, 22, 27, 33, 40] {
        let base: Vec<Iv> = (0..n as u32).map(|k| (10 * k + 5, 10 * k + 8)).collect();
        for (vi, extra) in [(10 * (n as u32 / 2) + 6, 10 * (n as u32 / 2) + 7), (10 * (n as u32 / 2) + 8, 10 * (n as u32 / 2) + 16), (5, 5), (0, MAX_CHAR)].iter().enumerate() {
            for shuffle in 0..3u64 {
                let mut l = base.clone();
                l.push(*extra);
                let mut r2 = Rng::new(a.seed ^ (n as u64 * 131 + vi as u64 * 17 + shuffle));
                for k in (1..l.len()).rev() {
                    let j = r2.below(k as u64 + 1) as usize;
                    l.swap(k, j);
                }
                out.emit(run_behaviour("list", &l, &[0, 5, MAX_CHAR], &[(5, 8)]));
            }
        }
    }
    // a long partition merged with a short one (in both orders, and as a list): the short one before, inside,
    // between and after the intervals of the long one, filling the gap at 0 or leaving it
    for n in [3usize, 9, 16, 17, 18, 33, a.sz(40, 130)] {
        for shape in 0..3u32 {
            let long: Vec<Iv> = (0..n as u32)
                .map(|k| match shape {
                    0 => (10 * k + 5, 10 * k + 8),
                    1 => (2 * k + 2, 2 * k + 3),
                    _ => (3 * k + 1, 3 * k + 1),
                })
                .collect();
            let last = long[long.len() - 1].1;
            let first = long[0].0;
            let mid = long[long.len() / 2];
            let shorts: Vec<Vec<Iv>> = vec![
                vec![(0, first - 1)],
                vec![(0, 0)],
                vec![(0, first)],
                vec![(mid.0, mid.1)],
                vec![(mid.1 + 1, mid.1 + 1)],
                vec![(mid.0, mid.1 + 1)],
                vec![(last + 1, last + 4)],
                vec![(last + 3, MAX_CHAR)],
                vec![(0, first - 1), (last + 1, MAX_CHAR)],
                vec![(0, MAX_CHAR)],
            ];
            for s in shorts {
                mo.emit(merge_record(&long, &s));
                mo.emit(merge_record(&s, &long));
                mo.emit(mergelist_record(&[long.clone(), s.clone()]));
                mo.emit(mergelist_record(&[s.clone(), long.clone(), vec![(last + 10, last + 12)]]));
            }
        }
    }
    // lists of EVERY length 0..20 (and 31..33, 64, 65) in which each partition contributes a boundary nobody else has:
    // singletons, pairs, and nested staircases; a reduction that loses or repeats one list element at some length
    // shows as a missing or an extra cut
    for n in (0..=20usize).chain([31, 32, 33, 64, 65]) {
        let singles: Vec<Vec<Iv>> = (0..n as u32).map(|k| vec![(10 * k + 5, 10 * k + 8)]).collect();
        let stairs: Vec<Vec<Iv>> = (0..n as u32).map(|k| vec![(k, 2 * n as u32 + 5 - k)]).collect();
        let twos: Vec<Vec<Iv>> = (0..n as u32).map(|k| vec![(3 * k, 3 * k), (1000 + 3 * k, 1001 + 3 * k)]).collect();
        mo.emit(mergelist_record(&singles));
        if n <= 33 {
            mo.emit(mergelist_record(&stairs));
            mo.emit(mergelist_record(&twos));
            let mut rev = singles.clone();
            rev.reverse();
            mo.emit(mergelist_record(&rev));
        }
    }
    // look-alike neighbours in a list: partitions that agree on every cheap summary (number of intervals, first and
    // last interval, complement witness, total size) and differ only in the interior; in every order, with repeats
    for k in 3..=6u32 {
        let p: Vec<Iv> = (0..k).map(|i| (10 * i, 10 * i + 1)).collect();
        let mut variants: Vec<Vec<Iv>> = vec![];
        for m in 1..k - 1 {
            let mut q = p.clone();
            q[m as usize] = (10 * m + 3, 10 * m + 4); // moved, same size
            variants.push(q);
            let mut q = p.clone();
            q[m as usize] = (10 * m + 1, 10 * m + 2); // shifted by one (now adjacent to nothing new, overlaps the old one)
            variants.push(q);
            let mut q = p.clone();
            q[m as usize] = (10 * m - 2, 10 * m + 5); // wider
            variants.push(q);
        }
        for q in &variants {
            mo.emit(mergelist_record(&[p.clone(), q.clone()]));
            mo.emit(mergelist_record(&[q.clone(), p.clone()]));
            mo.emit(mergelist_record(&[p.clone(), q.clone(), p.clone()]));
            mo.emit(mergelist_record(&[p.clone(), p.clone(), q.clone()]));
            mo.emit(mergelist_record(&[vec![(5, 5)], p.clone(), q.clone()]));
            mo.emit(merge_record(&p, q));
        }
        if variants.len() >= 2 {
            mo.emit(mergelist_record(&[variants[0].clone(), variants[1].clone(), p.clone()]));
        }
    }
    // full-alphabet scans of class_of_char: run-length encoded answers for a sample of partitions
    let nscan = a.sz(6, 200);
    let mut so = Out::create(&a.out, "part_scans.ndjson");
    for _ in 0..nscan {
        let ivs = random_partition(&mut rng, 10);
        let p = build(&ivs);
        let mut runs: Vec<Value> = vec![];
        let mut prev: i64 = -7;
        for x in 0..=MAX_CHAR {
            let c = cid_json(p.class_of_char(x));
            if c != prev {
                runs.push(json!([x, c]));
                prev = c;
            }
        }
        so.emit(json!({"op":"scan","ivs":ivs_json(&ivs),"runs":runs}));
    }
    let (n1, n2, n3) = (out.finish(), mo.finish(), so.finish());
    println!("{{\"family\":\"partitions-random\",\"objects\":{},\"merges\":{},\"scans\":{}}}", n1, n2, n3);
}

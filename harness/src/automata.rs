//! C04 / C13 / C14: automata.  `replay builder` and `replay dfa` execute TLC-generated
//! behaviours (MC_Builder, MC_Dfa) under block embeddings; `drive automata` adds seeded random
//! builder call sequences and random / compiled automata.  Judged by Trace_Automata.tla.
use crate::dump::*;
use crate::terms::*;
use crate::util::*;
use aws_smt_strings::automata::{Automaton, AutomatonBuilder};
use aws_smt_strings::character_sets::{CharSet, ClassId};
use aws_smt_strings::regular_expressions::ReManager;
use serde_json::{json, Map, Value};
use std::collections::BTreeSet;

#[derive(Clone, Debug)]
pub enum Call {
    New(u32),
    Add(u32, u32, u32, u32), // state, lo, hi, target
    Def(u32, u32),
    Fin(u32),
    /// an intermediate build() whose result is dropped: the builder is used further
    Build,
}

fn call_json(c: &Call) -> Value {
    match c {
        Call::New(s) => json!({"op":"new","s":s,"t":0,"lo":0,"hi":0}),
        Call::Add(s, lo, hi, t) => json!({"op":"add","s":s,"t":t,"lo":lo,"hi":hi}),
        Call::Def(s, t) => json!({"op":"def","s":s,"t":t,"lo":0,"hi":0}),
        Call::Fin(s) => json!({"op":"fin","s":s,"t":0,"lo":0,"hi":0}),
        Call::Build => json!({"op":"build","s":0,"t":0,"lo":0,"hi":0}),
    }
}

fn run_calls(calls: &[Call]) -> AutomatonBuilder<u32> {
    let mut b = match &calls[0] {
        Call::New(s) => AutomatonBuilder::new(s),
        _ => panic!("harness: first call must be new"),
    };
    for c in &calls[1..] {
        match c {
            Call::New(_) => panic!("harness: new in the middle"),
            Call::Add(s, lo, hi, t) => {
                b.add_transition(s, &CharSet::range(*lo, *hi), t);
            }
            Call::Def(s, t) => {
                b.set_default_successor(s, t);
            }
            Call::Fin(s) => {
                b.mark_final(s);
            }
            Call::Build => {
                let _ = b.build();
            }
        }
    }
    b
}

fn label_reps(calls: &[Call]) -> Vec<u32> {
    let mut r: BTreeSet<u32> = BTreeSet::new();
    r.insert(0);
    r.insert(MAX_CHAR);
    for c in calls {
        if let Call::Add(_, lo, hi, _) = c {
            for x in [lo.saturating_sub(1), *lo, *hi, (*hi + 1).min(MAX_CHAR)] {
                r.insert(x);
            }
        }
    }
    r.into_iter().collect()
}

/// everything C14 observes on an automaton, next to its dump
fn structure(a: &Automaton, d: &AutDump) -> Value {
    let r = guarded(|| {
        let part = a.combined_char_partition();
        let classes: Vec<Value> = part.ranges().map(|c| { let (x, y) = crate::charsets::endpoints(c); json!([x, y]) }).collect();
        let alphabet = a.pick_alphabet();
        let table = a.compile_successors();
        let n = a.num_states();
        let mut cells = vec![];
        for s in 0..n {
            let row: Vec<u32> = (0..alphabet.len()).map(|i| table.eval(s as u32, i as u32) + 1).collect();
            cells.push(row);
        }
        // next(state, alphabet[i]) by calling next, for comparison with the table
        let mut by_next = vec![];
        for s in a.states() {
            let row: Vec<usize> = alphabet.iter().map(|&c| a.next(s, c).id() + 1).collect();
            by_next.push(row);
        }
        let mut edges = vec![];
        for s in a.states() {
            let e: Vec<Value> = a.edges(s).map(|(cid, t)| json!({"cid": cid_json(cid), "to": t.id() + 1})).collect();
            edges.push(e);
        }
        let finals: Vec<usize> = a.final_states().map(|s| s.id() + 1).collect();
        // accepts(w) called on whole words (indices into the dump's representatives): every word of length 1, every
        // word of length 2 over four evenly spread representatives, every word of length 3 over the first and the last
        let nr = d.reps.len();
        let some: Vec<usize> = if nr <= 4 { (0..nr).collect() } else { (0..4).map(|i| i * (nr - 1) / 3).collect() };
        let three: Vec<usize> = vec![0, nr - 1];
        let mut words: Vec<Vec<usize>> = vec![vec![]];
        for i in 0..nr {
            words.push(vec![i]);
        }
        for &i in &some {
            for &j in &some {
                words.push(vec![i, j]);
            }
        }
        for &i in &three {
            for &j in &three {
                for &k in &three {
                    words.push(vec![i, j, k]);
                }
            }
        }
        let acc: Vec<Value> = words
            .iter()
            .map(|w| {
                let sw: aws_smt_strings::smt_strings::SmtString = w.iter().map(|&i| d.reps[i]).collect::<Vec<u32>>().into();
                json!({"w": w.iter().map(|&i| i + 1).collect::<Vec<usize>>(), "r": a.accepts(&sw)})
            })
            .collect();
        json!({"acc": acc, "classes": classes, "comp_empty": part.empty_complement(), "comp_witness": part.pick_complement(),
            "alphabet": alphabet, "table_alpha": table.alphabet_size(), "table_states": table.num_states(),
            "cells": cells, "by_next": by_next, "edges": edges, "final_states": finals,
            "num_states": a.num_states(), "num_final": a.num_final_states(), "init": a.initial_state().id() + 1})
    });
    match r {
        Ok(v) => v,
        Err(msg) => json!({"panic": msg}),
    }
}

fn char_set_next_probes(a: &Automaton, rng: &mut Rng) -> Value {
    // C11 consumer: char_set_next on sets relative to each state's ranges
    let mut out = vec![];
    for s in a.states().take(3) {
        let rs = ranges_of(s.char_ranges());
        let mut pts: BTreeSet<u32> = BTreeSet::new();
        pts.insert(0);
        pts.insert(MAX_CHAR);
        for &(lo, hi) in &rs {
            for x in [lo.saturating_sub(1), lo, hi, (hi + 1).min(MAX_CHAR)] {
                pts.insert(x);
            }
        }
        let pts: Vec<u32> = pts.into_iter().collect();
        for _ in 0..6 {
            let (x, y) = (*rng.pick(&pts), *rng.pick(&pts));
            let (x, y) = (x.min(y), x.max(y));
            let r = guarded(|| a.char_set_next(s, &CharSet::range(x, y)).map(|t| t.id() + 1));
            let rj: Vec<Value> = rs.iter().map(|&(p, q)| json!([p, q])).collect();
            out.push(match r {
                Ok(Ok(t)) => json!({"s": s.id() + 1, "a": x, "b": y, "res": "ok", "to": t, "ranges": rj}),
                Ok(Err(e)) => json!({"s": s.id() + 1, "a": x, "b": y, "res": format!("err:{:?}", e), "to": 0, "ranges": rj}),
                Err(_) => json!({"s": s.id() + 1, "a": x, "b": y, "res": "panic", "to": 0, "ranges": rj}),
            });
        }
    }
    json!(out)
}

/// C14 on automata that come out of the builder: every second accepted specification of the random driver is also
/// pruned and its tables / edges / counters are observed, before and after (whatever build() accepts is an automaton
/// the C14 operations must be right about)
static PRUNE_SINK: std::sync::Mutex<Option<(Vec<Value>, u64, u64)>> = std::sync::Mutex::new(None);
/// the same for C04: minimize() on what the builder returns
static MIN_SINK: std::sync::Mutex<Option<(Vec<Value>, u64, u64)>> = std::sync::Mutex::new(None);

fn builder_minimize_record(calls: &[Call]) -> Option<Value> {
    let cj: Vec<Value> = calls.iter().map(call_json).collect();
    let reps0 = label_reps(calls);
    let r = guarded(|| -> Result<(AutDump, AutDump, Value), String> {
        let a1 = run_calls(calls).build().map_err(|e| format!("{:?}", e))?;
        let mut a2 = run_calls(calls).build().map_err(|e| format!("{:?}", e))?;
        touch(&a2);
        a2.minimize();
        let db0 = dump_automaton(&a2, &[], &reps0);
        let da = dump_automaton(&a1, &[], &db0.reps);
        let db = dump_automaton(&a2, &[], &da.reps);
        let s = structure(&a2, &db);
        Ok((da, db, s))
    });
    match r {
        Ok(Ok((da, db, s))) => Some(json!({"op":"minimize","calls":cj,"style":7,"pre":"none","before":da.json(),"after":db.json(),"str":s})),
        Ok(Err(_)) => None,
        Err(msg) => Some(json!({"op":"panic","calls":cj,"where":"minimize","msg":msg})),
    }
}

fn builder_prune_record(calls: &[Call], seed: u64) -> Option<Value> {
    let cj: Vec<Value> = calls.iter().map(call_json).collect();
    let reps0 = label_reps(calls);
    let r = guarded(|| -> Result<(AutDump, AutDump, Value, Value, Value), String> {
        let mut a1 = run_calls(calls).build().map_err(|e| format!("{:?}", e))?;
        let mut a2 = run_calls(calls).build().map_err(|e| format!("{:?}", e))?;
        let _ = &mut a1;
        touch(&a2);
        a2.remove_unreachable_states();
        let db0 = dump_automaton(&a2, &[], &reps0);
        let da = dump_automaton(&a1, &[], &db0.reps);
        let db = dump_automaton(&a2, &[], &da.reps);
        let s_before = structure(&a1, &da);
        let s_after = structure(&a2, &db);
        let csn = char_set_next_probes(&a1, &mut Rng::new(seed));
        Ok((da, db, s_before, s_after, csn))
    });
    match r {
        Ok(Ok((da, db, sb, sa, csn))) => Some(json!({"op":"prune","calls":cj,"style":7,"pre":"none","before":da.json(),"after":db.json(),
            "str":sb,"str_after":sa,"csn":csn})),
        Ok(Err(_)) => None,
        Err(msg) => Some(json!({"op":"panic","calls":cj,"where":"remove_unreachable_states/tables","msg":msg})),
    }
}

/// one builder behaviour: calls as given, then build()
fn builder_record(calls: &[Call], gen_verdict: &str) -> Value {
    let cj: Vec<Value> = calls.iter().map(call_json).collect();
    if let Some((sink, k, seed)) = MIN_SINK.lock().unwrap().as_mut() {
        *k += 1;
        let nadd = calls.iter().filter(|c| matches!(c, Call::Add(..))).count();
        if *k % 2 == *seed % 2 && nadd <= 8 {
            if let Some(v) = builder_minimize_record(calls) {
                sink.push(v);
            }
        }
    }
    if let Some((sink, k, seed)) = PRUNE_SINK.lock().unwrap().as_mut() {
        *k += 1;
        // (small specifications only: the validator's fixpoints grow with labels x states)
        let nadd = calls.iter().filter(|c| matches!(c, Call::Add(..))).count();
        if *k % 2 == *seed % 2 && nadd <= 8 {
            if let Some(v) = builder_prune_record(calls, *seed ^ *k) {
                sink.push(v);
            }
        }
    }
    let r = guarded(|| {
        let mut b = run_calls(calls);
        match b.build() {
            Ok(a) => {
                let d = dump_automaton(&a, &[], &label_reps(calls));
                let s = structure(&a, &d);
                Ok((d, s))
            }
            Err(e) => Err(format!("err:{:?}", e)),
        }
    });
    match r {
        Ok(Ok((d, s))) => json!({"op":"builder","calls":cj,"gen_verdict":gen_verdict,"res":"ok","aut":d.json(),"str":s}),
        Ok(Err(e)) => json!({"op":"builder","calls":cj,"gen_verdict":gen_verdict,"res":e}),
        Err(msg) => json!({"op":"builder","calls":cj,"gen_verdict":gen_verdict,"res":"panic","msg":msg}),
    }
}

fn read_lines(path: &str) -> Vec<Value> {
    std::fs::read_to_string(path)
        .expect("scenario file")
        .lines()
        .filter(|l| !l.trim().is_empty())
        .map(|l| serde_json::from_str(l).expect("scenario json"))
        .collect()
}

fn arg(a: &Args, name: &str) -> Option<String> {
    a.rest.iter().position(|x| x == name).map(|i| a.rest[i + 1].clone())
}

/// spec -> implementation: TLC-generated builder behaviours (MC_Builder, alphabet 0..2)
pub fn replay_builder(a: &Args) {
    let scen = read_lines(&arg(a, "--scen").expect("--scen FILE"));
    let mut rng = Rng::new(a.seed);
    let mut out = Out::create(&a.out, "builder.ndjson");
    let nlay = a.sz(2, 3);
    let layouts: Vec<Layout> = (0..nlay).map(|i| if i == 1 { Layout::edges(2) } else { Layout::new(2, &mut rng, i == 0) }).collect();
    for (k, sc) in scen.iter().enumerate() {
        let lay = &layouts[k % nlay];
        let calls: Vec<Call> = sc["calls"]
            .as_array()
            .unwrap()
            .iter()
            .map(|c| {
                let g = |f: &str| c[f].as_u64().unwrap() as u32;
                match c["op"].as_str().unwrap() {
                    "new" => Call::New(g("s")),
                    "add" => Call::Add(g("s"), lay.lo(g("lo")), lay.hi(g("hi")), g("t")),
                    "def" => Call::Def(g("s"), g("t")),
                    _ => Call::Fin(g("s")),
                }
            })
            .collect();
        out.emit(builder_record(&calls, sc["verdict"].as_str().unwrap_or("")));
    }
    let n = out.finish();
    println!("{{\"family\":\"builder-replay\",\"behaviours\":{},\"events\":{}}}", scen.len(), n);
}

/// seeded random builder call sequences over real code points
pub fn drive_builder(a: &Args) {
    let mut rng = Rng::new(a.seed ^ 0xB1);
    let mut out = Out::create(&a.out, "builder_random.ndjson");
    if arg(a, "--for").as_deref() == Some("C14") {
        *PRUNE_SINK.lock().unwrap() = Some((vec![], 0, a.seed));
    }
    if arg(a, "--for").as_deref() == Some("C04") {
        *MIN_SINK.lock().unwrap() = Some((vec![], 0, a.seed));
    }
    for _ in 0..a.sz(1500, 30000) {
        let ns = rng.range(1, 4);
        let mut calls = vec![Call::New(rng.range(0, ns - 1))];
        // a partition of the alphabet into a few cells shared by all states of this sequence
        let ncut = rng.range(0, 4);
        let mut cuts: Vec<u32> = (0..ncut).map(|_| rng.ch().max(1)).collect();
        cuts.sort();
        cuts.dedup();
        let mut cells: Vec<(u32, u32)> = vec![];
        let mut lo = 0;
        for &c in &cuts {
            cells.push((lo, c - 1));
            lo = c;
        }
        cells.push((lo, MAX_CHAR));
        let complete = rng.below(3);
        for s in 0..ns {
            // mostly well-formed: each cell gets a transition or falls to the default
            let mut need_default = false;
            for &(x, y) in &cells {
                match rng.below(8) {
                    0 => need_default = true,
                    1 if complete == 0 => {} // hole
                    2 if complete == 0 => {
                        // overlapping label
                        calls.push(Call::Add(s, x, y, rng.range(0, ns - 1)));
                        calls.push(Call::Add(s, x, (y + 1).min(MAX_CHAR), rng.range(0, ns - 1)));
                    }
                    _ => calls.push(Call::Add(s, x, y, rng.range(0, ns - 1))),
                }
            }
            if need_default || rng.coin(1, 10) {
                calls.push(Call::Def(s, rng.range(0, ns - 1)));
            }
            if rng.coin(1, 3) {
                calls.push(Call::Fin(s));
            }
        }
        // some calls are made twice (marking a state final twice, giving the same transition twice): idempotent
        if rng.coin(1, 3) && calls.len() > 2 {
            for _ in 0..rng.range(1, 3) {
                let i = 1 + rng.below(calls.len() as u64 - 1) as usize;
                if matches!(calls[i], Call::Fin(_) | Call::Add(..)) {
                    let c = calls[i].clone();
                    calls.push(c);
                }
            }
        }
        // shuffle everything after new (call order across states is free)
        for k in (2..calls.len()).rev() {
            let j = 1 + rng.below(k as u64) as usize;
            calls.swap(k, j);
        }
        out.emit(builder_record(&calls, ""));
    }
    // the builder used further after a successful build(): k transitions into the declared default (build's clean-up
    // drops them), then k / k-1 / k+1 new transitions, one of which may conflict with a transition that is still
    // there; the final verdict is the one of all transitions given
    for k in 1..=3u32 {
        for extra in [k, k + 1, k.saturating_sub(1)] {
            for variant in 0..4u32 {
                let d = 1u32; // declared default of state 0
                let mut calls = vec![Call::New(0), Call::Add(0, 0x61, 0x61, 0), Call::Add(0, 0x70, 0x7F, 2), Call::Def(0, d)];
                for j in 0..k {
                    calls.push(Call::Add(0, 0x30 + j, 0x30 + j, d));
                }
                calls.push(Call::Def(1, 1));
                calls.push(Call::Def(2, 0));
                calls.push(Call::Fin(2));
                calls.push(Call::Build);
                for j in 0..extra {
                    calls.push(match (variant, j) {
                        (0, 0) => Call::Add(0, 0x61, 0x61, d),       // conflicts with a surviving transition, targets the default
                        (1, 0) => Call::Add(0, 0x70, 0x75, 1),       // conflicts, other target
                        (2, 0) => Call::Add(0, 0x61, 0x61, 0),       // the same transition again: no conflict
                        _ => Call::Add(0, 0x100 + 2 * j, 0x100 + 2 * j, 2), // new region: no conflict
                    });
                }
                out.emit(builder_record(&calls, ""));
            }
        }
    }
    // every kind of repeated call on a small complete specification: final mark twice / three times, the same
    // transition twice, the same default twice
    for dup in 0..5u32 {
        let mut calls = vec![Call::New(0), Call::Add(0, 0x61, 0x61, 1), Call::Def(0, 0), Call::Def(1, 1), Call::Fin(1)];
        match dup {
            0 => calls.push(Call::Fin(1)),
            1 => { calls.push(Call::Fin(1)); calls.push(Call::Fin(1)); calls.push(Call::Fin(0)); calls.push(Call::Fin(0)); }
            2 => calls.push(Call::Add(0, 0x61, 0x61, 1)),
            3 => calls.push(Call::Def(1, 1)),
            _ => { calls.insert(1, Call::Fin(0)); calls.push(Call::Fin(0)); }
        }
        out.emit(builder_record(&calls, ""));
    }
    // conflicting labels in every shape of overlap, added at the beginning / in the middle / at the end of a
    // complete specification: identical interval, nested, spanning two, touching one character at 0 / at MAX_CHAR
    {
        let cells: Vec<(u32, u32)> = vec![(0, 0x2F), (0x30, 0x39), (0x3A, 0x60), (0x61, MAX_CHAR)];
        let extras: Vec<(u32, u32)> = vec![
            (0x30, 0x39), (0x32, 0x35), (0x35, 0x3C), (0, 0), (MAX_CHAR, MAX_CHAR), (0x2F, 0x30), (0, MAX_CHAR), (0x39, 0x39), (0x30, 0x30),
        ];
        for &(x, y) in &extras {
            for pos in 0..3usize {
                for same_target in [false, true] {
                    let mut adds: Vec<Call> = cells.iter().enumerate().map(|(i, &(lo, hi))| Call::Add(0, lo, hi, (i as u32) % 3)).collect();
                    // the target of the cell that contains x (for the same-target variant: no conflict at x)
                    let ci = cells.iter().position(|&(lo, hi)| lo <= x && x <= hi).unwrap() as u32;
                    let t = if same_target { ci % 3 } else { (ci + 1) % 3 };
                    let at = [0, 2, adds.len()][pos];
                    adds.insert(at, Call::Add(0, x, y, t));
                    let mut calls = vec![Call::New(0)];
                    calls.extend(adds);
                    calls.push(Call::Def(1, 1));
                    calls.push(Call::Def(2, 0));
                    calls.push(Call::Fin(2));
                    out.emit(builder_record(&calls, ""));
                }
            }
        }
    }
    // many labels in one state (9..40), scrambled, with or without one conflicting label: accepted / rejected, no panic
    for &n in &[9u32, 16, 17, 21, 22, 27, 40, 257] {
        for conflict in [false, true] {
            for shuffle in 0..2u64 {
                let mut adds: Vec<Call> = (0..n).map(|k| Call::Add(0, 10 * k + 5, 10 * k + 8, 1 + k % 2)).collect();
                if conflict {
                    let m = n / 2;
                    adds.push(Call::Add(0, 10 * m + 7, 10 * m + 12, 2 - m % 2));
                }
                let mut r2 = Rng::new(a.seed ^ (n as u64 * 977 + shuffle * 31 + conflict as u64));
                for k in (1..adds.len()).rev() {
                    let j = r2.below(k as u64 + 1) as usize;
                    adds.swap(k, j);
                }
                let mut calls = vec![Call::New(0)];
                calls.extend(adds);
                calls.push(Call::Def(0, 0));
                calls.push(Call::Def(1, 1));
                calls.push(Call::Def(2, 0));
                calls.push(Call::Fin(2));
                out.emit(builder_record(&calls, ""));
            }
        }
    }
    // many states (6..33): a cycle on the low characters, a self loop on one letter, the default jumps; a few
    // unreachable states; calls in a shuffled order
    for &n in &[6u32, 9, 16, 17, 33] {
        for variant in 0..3u32 {
            let extra = variant; // unreachable states n..n+extra
            let mut calls = vec![Call::New(0)];
            let mut body: Vec<Call> = vec![];
            for i in 0..n {
                body.push(Call::Add(i, 0, 0x60, (i + 1) % n));
                body.push(Call::Add(i, 0x61, 0x61, i));
                if variant == 1 && i % 4 == 0 {
                    body.push(Call::Add(i, 0x62, MAX_CHAR, (i * 2) % n));
                } else {
                    body.push(Call::Def(i, (i * 2) % n));
                }
                if i % 3 == 0 {
                    body.push(Call::Fin(i));
                }
            }
            for x in 0..extra {
                let s = n + x;
                body.push(Call::Add(s, 0, 0x2F, (s + 1 - n) % extra + n));
                body.push(Call::Def(s, 0));
                if x == 0 {
                    body.push(Call::Fin(s));
                }
            }
            for k in (1..body.len()).rev() {
                let j = rng.below(k as u64 + 1) as usize;
                body.swap(k, j);
            }
            calls.extend(body);
            out.emit(builder_record(&calls, ""));
        }
    }
    // tilings: k = 3..6 intervals covering the whole alphabet, at least 3 distinct targets (no majority), added in
    // EVERY order for k = 4 and in sampled orders otherwise; without a default, with a default declared first / last
    for k in 3..=6usize {
        let cuts: Vec<u32> = (1..k as u32).map(|i| i * 0x100).collect();
        let mut cells: Vec<(u32, u32)> = vec![];
        let mut lo = 0;
        for &c in &cuts {
            cells.push((lo, c - 1));
            lo = c;
        }
        cells.push((lo, MAX_CHAR));
        let ns = 4u32;
        let target_patterns: Vec<Vec<u32>> = vec![
            (0..k as u32).map(|i| (i + 1) % ns).collect(),
            (0..k as u32).map(|i| if i % 2 == 0 { 1 } else { 2 + (i / 2) % 2 }).collect(),
            (0..k as u32).map(|i| (k as u32 - i) % ns).collect(),
        ];
        let mut perms: Vec<Vec<usize>> = vec![];
        if k == 4 || (k == 3) {
            // all permutations
            fn rec(cur: &mut Vec<usize>, used: &mut Vec<bool>, k: usize, out: &mut Vec<Vec<usize>>) {
                if cur.len() == k {
                    out.push(cur.clone());
                    return;
                }
                for i in 0..k {
                    if !used[i] {
                        used[i] = true;
                        cur.push(i);
                        rec(cur, used, k, out);
                        cur.pop();
                        used[i] = false;
                    }
                }
            }
            rec(&mut vec![], &mut vec![false; k], k, &mut perms);
        } else {
            for _ in 0..a.sz(12, 120) {
                let mut p: Vec<usize> = (0..k).collect();
                for i in (1..k).rev() {
                    let j = rng.below(i as u64 + 1) as usize;
                    p.swap(i, j);
                }
                perms.push(p);
            }
            perms.push((0..k).rev().collect());
        }
        for tp in &target_patterns {
            for p in &perms {
                for def in 0..3 {
                    let mut calls = vec![Call::New(0)];
                    if def == 1 {
                        calls.push(Call::Def(0, 3));
                    }
                    for &i in p {
                        calls.push(Call::Add(0, cells[i].0, cells[i].1, tp[i]));
                    }
                    if def == 2 {
                        calls.push(Call::Def(0, 2));
                    }
                    for s in 1..ns {
                        calls.push(Call::Def(s, s));
                    }
                    calls.push(Call::Fin(1));
                    out.emit(builder_record(&calls, ""));
                }
            }
        }
    }
    // one label between two landmark code points (ends of narrower character types, surrogate block, planes), the rest
    // of the alphabet given by a default / by explicit labels / left as a hole
    for (i, &lo) in LANDMARKS.iter().enumerate() {
        for (j, &hi) in LANDMARKS[i..].iter().enumerate() {
            let variant = (i + j) % 3;
            let mut calls = vec![Call::New(0), Call::Add(0, lo, hi, 1)];
            match variant {
                0 => calls.push(Call::Def(0, 2)),
                1 => {
                    if lo > 0 {
                        calls.push(Call::Add(0, 0, lo - 1, 2));
                    }
                    if hi < MAX_CHAR {
                        calls.push(Call::Add(0, hi + 1, MAX_CHAR, 0));
                    }
                }
                _ => {
                    // hole right after the label (unless the label ends the alphabet)
                    if lo > 0 {
                        calls.push(Call::Add(0, 0, lo - 1, 2));
                    }
                    if hi + 1 < MAX_CHAR {
                        calls.push(Call::Add(0, hi + 2, MAX_CHAR, 0));
                    }
                }
            }
            calls.push(Call::Def(1, 1));
            calls.push(Call::Def(2, 0));
            calls.push(Call::Fin(1));
            out.emit(builder_record(&calls, ""));
        }
    }
    if let Some((sink, _, _)) = MIN_SINK.lock().unwrap().take() {
        let mut po = Out::create(&a.out, "builder_minimize.ndjson");
        for v in sink {
            po.emit(v);
        }
        po.finish();
    }
    if let Some((sink, _, _)) = PRUNE_SINK.lock().unwrap().take() {
        let mut po = Out::create(&a.out, "builder_prune.ndjson");
        for v in sink {
            po.emit(v);
        }
        po.finish();
    }
    let n = out.finish();
    println!("{{\"family\":\"builder-random\",\"events\":{}}}", n);
}

// ------------------------------------------------------------------------------------------
// DFAs: minimize (C04), prune and tables (C14)

#[derive(Clone, Debug)]
pub struct AbsDfa {
    pub n: usize,
    pub letters: Vec<(u32, u32)>, // real intervals, pairwise disjoint, covering the alphabet
    pub delta: Vec<Vec<usize>>,   // 0-based
    pub finals: Vec<bool>,
}

/// style 0: explicit transitions only; 1: the most frequent target is declared as default and
/// its letters are left out; 2: like 1 but the default is declared before the transitions
fn build_abs(d: &AbsDfa, style: usize) -> Result<Automaton, String> {
    let mut b: AutomatonBuilder<usize> = AutomatonBuilder::new(&0);
    for s in 0..d.n {
        let mut dflt: Option<usize> = None;
        if style >= 1 {
            let mut best = (0usize, 0usize);
            for t in 0..d.n {
                let c = d.delta[s].iter().filter(|&&x| x == t).count();
                if c > best.1 {
                    best = (t, c);
                }
            }
            dflt = Some(best.0);
        }
        if style == 2 {
            if let Some(t) = dflt {
                b.set_default_successor(&s, &t);
            }
        }
        if style == 3 {
            // runs of adjacent letters with the same successor are given as ONE interval (the states of one
            // automaton then cut the alphabet at different places)
            let mut j = 0;
            while j < d.letters.len() {
                let t = d.delta[s][j];
                let lo = d.letters[j].0;
                let mut k = j;
                while k + 1 < d.letters.len() && d.delta[s][k + 1] == t && d.letters[k].1 + 1 == d.letters[k + 1].0 {
                    k += 1;
                }
                if Some(t) != dflt {
                    b.add_transition(&s, &CharSet::range(lo, d.letters[k].1), &t);
                }
                j = k + 1;
            }
        } else {
            for (j, &(lo, hi)) in d.letters.iter().enumerate() {
                if Some(d.delta[s][j]) != dflt {
                    b.add_transition(&s, &CharSet::range(lo, hi), &d.delta[s][j]);
                }
            }
        }
        if style == 1 || style == 3 {
            if let Some(t) = dflt {
                b.set_default_successor(&s, &t);
            }
        }
        if d.finals[s] {
            b.mark_final(&s);
        }
    }
    b.build().map_err(|e| format!("{:?}", e))
}

/// read-only queries made BEFORE an in-place operation: whatever they compute (or cache) must not survive it
fn touch(a: &Automaton) {
    let _ = a.pick_alphabet();
    let _ = a.compile_successors();
    let _ = a.combined_char_partition();
    let _ = (a.num_states(), a.num_final_states());
    let _ = a.states().map(|s| a.edges(s).count()).sum::<usize>();
}

fn letter_reps(d: &AbsDfa) -> Vec<u32> {
    let mut v = vec![];
    for &(lo, hi) in &d.letters {
        v.push(lo);
        v.push(hi);
        if hi > lo + 1 {
            v.push(lo + (hi - lo) / 2);
        }
    }
    v
}

fn abs_json(d: &AbsDfa) -> Value {
    let dj: Vec<Vec<usize>> = d.delta.iter().map(|r| r.iter().map(|x| x + 1).collect()).collect();
    json!({"n": d.n, "letters": d.letters.iter().map(|&(a, b)| json!([a, b])).collect::<Vec<_>>(), "delta": dj, "final": d.finals})
}

/// records for one abstract DFA built in one style: minimize (C04) and prune/tables (C14)
fn apply_pre(a: &mut Automaton, pre: usize) {
    // operations performed on the automaton BEFORE the one under test: the object's own history
    match pre {
        1 => a.minimize(),
        2 => a.remove_unreachable_states(),
        3 => {
            a.minimize();
            a.remove_unreachable_states();
        }
        _ => {}
    }
}

fn dfa_records(d: &AbsDfa, style: usize, rng: &mut Rng, want_min: bool, want_c14: bool, out_min: &mut Out, out_c14: &mut Out) {
    let reps0 = letter_reps(d);
    let pre = rng.below(4) as usize % 4;
    let pre_min = if pre == 1 { 2 } else if pre == 3 { 1 } else { 0 }; // before minimize: nothing / prune / minimize
    let pre_prune = if pre >= 2 { 1 } else { 0 }; // before prune: nothing / minimize
    let base = |p: usize| {
        let mut m = Map::new();
        m.insert("abs".into(), abs_json(d));
        m.insert("style".into(), json!(style));
        m.insert("pre".into(), json!(["none", "minimize", "prune", "minimize+prune"][p]));
        m
    };
    if want_min {
        let r = guarded(|| -> Result<(AutDump, AutDump, Value), String> {
            let mut a1 = build_abs(d, style)?;
            let mut a2 = build_abs(d, style)?;
            apply_pre(&mut a1, pre_min);
            apply_pre(&mut a2, pre_min);
            touch(&a2);
            a2.minimize();
            let db0 = dump_automaton(&a2, &[], &reps0);
            let da = dump_automaton(&a1, &[], &db0.reps);
            let db = dump_automaton(&a2, &[], &da.reps);
            let s = structure(&a2, &db);
            Ok((da, db, s))
        });
        let mut m = base(pre_min);
        match r {
            Ok(Ok((da, db, s))) => {
                m.insert("op".into(), json!("minimize"));
                m.insert("before".into(), da.json());
                m.insert("after".into(), db.json());
                m.insert("str".into(), s);
            }
            Ok(Err(e)) => {
                m.insert("op".into(), json!("build_failed"));
                m.insert("err".into(), json!(e));
            }
            Err(msg) => {
                m.insert("op".into(), json!("panic"));
                m.insert("where".into(), json!("minimize"));
                m.insert("msg".into(), json!(msg));
            }
        }
        out_min.emit(Value::Object(m));
    }
    if want_c14 {
        let r = guarded(|| -> Result<(AutDump, AutDump, Value, Value, Value), String> {
            let mut a1 = build_abs(d, style)?;
            let mut a2 = build_abs(d, style)?;
            apply_pre(&mut a1, pre_prune);
            apply_pre(&mut a2, pre_prune);
            touch(&a2);
            a2.remove_unreachable_states();
            let db0 = dump_automaton(&a2, &[], &reps0);
            let da = dump_automaton(&a1, &[], &db0.reps);
            let db = dump_automaton(&a2, &[], &da.reps);
            let s_before = structure(&a1, &da);
            let s_after = structure(&a2, &db);
            let csn = char_set_next_probes(&a1, rng);
            Ok((da, db, s_before, s_after, csn))
        });
        let mut m = base(pre_prune);
        match r {
            Ok(Ok((da, db, sb, sa, csn))) => {
                m.insert("op".into(), json!("prune"));
                m.insert("before".into(), da.json());
                m.insert("after".into(), db.json());
                m.insert("str".into(), sb);
                m.insert("str_after".into(), sa);
                m.insert("csn".into(), csn);
            }
            Ok(Err(e)) => {
                m.insert("op".into(), json!("build_failed"));
                m.insert("err".into(), json!(e));
            }
            Err(msg) => {
                m.insert("op".into(), json!("panic"));
                m.insert("where".into(), json!("remove_unreachable_states/tables"));
                m.insert("msg".into(), json!(msg));
            }
        }
        out_c14.emit(Value::Object(m));
    }
}

fn which(a: &Args) -> (bool, bool) {
    match arg(a, "--for").as_deref() {
        Some("C04") => (true, false),
        Some("C14") => (false, true),
        _ => (true, true),
    }
}

/// spec -> implementation: TLC-generated DFAs (MC_Dfa: all complete DFAs over `nl` letters)
pub fn replay_dfa(a: &Args) {
    let scen = read_lines(&arg(a, "--scen").expect("--scen FILE"));
    let (want_min, want_c14) = which(a);
    let mut rng = Rng::new(a.seed);
    let mut o1 = Out::create(&a.out, "dfa_minimize.ndjson");
    let mut o2 = Out::create(&a.out, "dfa_prune.ndjson");
    for (k, sc) in scen.iter().enumerate() {
        let delta: Vec<Vec<usize>> = sc["delta"].as_array().unwrap().iter().map(|r| r.as_array().unwrap().iter().map(|x| x.as_u64().unwrap() as usize - 1).collect()).collect();
        let finals: Vec<bool> = sc["final"].as_array().unwrap().iter().map(|x| x.as_bool().unwrap()).collect();
        let nl = delta[0].len() as u32;
        let lay = Layout::new(nl - 1, &mut rng, k % 5 == 0);
        let letters: Vec<(u32, u32)> = (0..nl).map(|i| (lay.lo(i), lay.hi(i))).collect();
        let d = AbsDfa { n: delta.len(), letters, delta, finals };
        let style = k % 4;
        dfa_records(&d, style, &mut rng, want_min, want_c14, &mut o1, &mut o2);
        if a.thorough() {
            dfa_records(&d, (style + 1) % 4, &mut rng, want_min, want_c14, &mut o1, &mut o2);
        }
    }
    let (n1, n2) = (o1.finish(), o2.finish());
    println!("{{\"family\":\"dfa-replay\",\"dfas\":{},\"minimize\":{},\"prune\":{}}}", scen.len(), n1, n2);
}

fn random_abs(rng: &mut Rng, maxn: u32, maxl: u32) -> AbsDfa {
    let n = rng.range(1, maxn) as usize;
    let nl = rng.range(1, maxl);
    let lay = Layout::new(nl - 1, rng, false);
    let letters: Vec<(u32, u32)> = (0..nl).map(|i| (lay.lo(i), lay.hi(i))).collect();
    // bias: some states unreachable (targets drawn from a prefix), some duplicated rows
    let reach = if rng.coin(1, 3) { rng.range(1, n as u32) as usize } else { n };
    let mut delta: Vec<Vec<usize>> = (0..n).map(|_| (0..nl).map(|_| rng.below(reach as u64) as usize).collect()).collect();
    if n >= 3 && rng.coin(1, 2) {
        let (i, j) = (rng.below(n as u64) as usize, rng.below(n as u64) as usize);
        delta[i] = delta[j].clone();
    }
    let mode = rng.below(6);
    let finals: Vec<bool> = (0..n).map(|_| match mode { 0 => true, 1 => false, _ => rng.coin(1, 2) }).collect();
    AbsDfa { n, letters, delta, finals }
}

/// random DFAs through the builder, and compiled expressions (minimized / pruned)
pub fn drive_automata(a: &Args) {
    let (want_min, want_c14) = which(a);
    let mut rng = Rng::new(a.seed ^ 0xA7);
    let mut o1 = Out::create(&a.out, "dfa_random_minimize.ndjson");
    let mut o2 = Out::create(&a.out, "dfa_random_prune.ndjson");
    // escalation (asked for by the orchestrator when the hooked refinement diverged from Hopcroft.tla): many DFAs
    // with few letters and many states, minimize() only
    if let Some(i) = a.rest.iter().position(|x| x == "--escalate") {
        let n: usize = a.rest[i + 1].parse().expect("--escalate N");
        let mut oe = Out::create(&a.out, "dfa_escalation_minimize.ndjson");
        let mut unused = Out::create(&a.out, "dfa_escalation_unused.ndjson");
        for k in 0..n {
            let mut d = random_abs(&mut rng, 14, 2);
            while d.n < 4 {
                d = random_abs(&mut rng, 14, 2);
            }
            dfa_records(&d, k % 3, &mut rng, true, false, &mut oe, &mut unused);
        }
        let (n1, _) = (oe.finish(), unused.finish());
        println!("{{\"family\":\"automata-escalation\",\"minimize\":{}}}", n1);
        return;
    }
    // larger automata with a regular shape (17, 33, 65 states: sizes where block-wise code changes strategy): a
    // cycle on the first letter, the second letter stays / resets / jumps; finals = multiples of k
    for &n in &[16usize, 17, 33, 65] {
        for second in 0..3 {
            for &k in &[1usize, 2, 3, 4, n] {
                let lay = Layout::new(1, &mut rng, false);
                let letters: Vec<(u32, u32)> = (0..2).map(|i| (lay.lo(i), lay.hi(i))).collect();
                let delta: Vec<Vec<usize>> = (0..n)
                    .map(|i| vec![(i + 1) % n, match second { 0 => i, 1 => 0, _ => (i * 2) % n }])
                    .collect();
                let finals: Vec<bool> = (0..n).map(|i| i % k == 0).collect();
                let d = AbsDfa { n, letters, delta, finals };
                dfa_records(&d, (n + k) % 3, &mut rng, want_min, want_c14, &mut o1, &mut o2);
            }
        }
    }
    // two states that cut three ADJACENT letters differently (every assignment of the three letters to two targets,
    // for both states), intervals given merged: nested / aligned / gap-spanning interval lists within one automaton
    for qa in 0..8u32 {
        for pa in 0..8u32 {
            for dflt_style in [3usize, 1] {
                if dflt_style == 1 && (qa + pa) % 4 != 0 {
                    continue;
                }
                let lay = Layout::new(6, &mut rng, (qa + pa) % 2 == 0);
                let letters: Vec<(u32, u32)> = (0..7).map(|i| (lay.lo(i), lay.hi(i))).collect();
                // states: 0 init, 1 Q, 2 P, 3 acc, 4 sink; letters: 0 -> Q, 1 -> P, 2..4 the three adjacent letters,
                // 5 and 6 always to the sink (so that the sink is every state's default and the intervals are explicit)
                let row = |bits: u32| -> Vec<usize> { vec![4, 4, if bits & 1 != 0 { 3 } else { 4 }, if bits & 2 != 0 { 3 } else { 4 }, if bits & 4 != 0 { 3 } else { 4 }, 4, 4] };
                let delta = vec![vec![1, 2, 4, 4, 4, 4, 4], row(qa), row(pa), vec![4; 7], vec![4; 7]];
                let finals = vec![false, false, false, true, false];
                let d = AbsDfa { n: 5, letters, delta, finals };
                dfa_records(&d, dflt_style, &mut rng, want_min, want_c14, &mut o1, &mut o2);
            }
        }
    }
    // deep automata: a chain of 300 states on the first letter plus one extra state that enters the chain at two
    // different depths - hundreds of refinement rounds, blocks that are split again long after they were formed
    // (only the language is judged for these: the Nerode fixpoints are quadratic)
    if want_min {
        let l = 300usize;
        let kdeep = 280usize;
        let step = a.sz(1, 1);
        for m in (1..kdeep).filter(|m| m % step == (a.seed as usize) % step) {
            // states: 0..=l chain, l+1 dead, l+2 extra
            let (dead, x) = (l + 1, l + 2);
            let lay = Layout::new(1, &mut rng, true);
            let letters: Vec<(u32, u32)> = (0..2).map(|i| (lay.lo(i), lay.hi(i))).collect();
            let mut delta: Vec<Vec<usize>> = (0..=l).map(|i| vec![if i < l { i + 1 } else { dead }, dead]).collect();
            delta[0][1] = x;
            delta.push(vec![dead, dead]);
            delta.push(vec![kdeep, m]);
            let mut finals = vec![false; l + 3];
            finals[l] = true;
            let d = AbsDfa { n: l + 3, letters, delta, finals };
            let mut unused = Out::create(&a.out, "dfa_deep_unused.ndjson");
            dfa_records(&d, 0, &mut Rng::new(4), true, false, &mut o1, &mut unused);
            unused.finish();
        }
    }
    for k in 0..a.sz(1800, 40000) {
        let d = match k % 6 {
            0 => random_abs(&mut rng, 4, 2),
            1 | 2 => random_abs(&mut rng, 14, 2),
            _ => random_abs(&mut rng, 12, 4),
        };
        dfa_records(&d, k % 4, &mut rng, want_min, want_c14, &mut o1, &mut o2);
    }
    // compiled automata
    let fams = crate::regex::families(a, &mut rng);
    let mut mgr = ReManager::new();
    for (id, f) in fams.iter().enumerate() {
        if id % 40 == 0 {
            mgr = ReManager::new();
        }
        // quick tier: every term for C14 (prune / tables of compiled, minimized automata), every second one for C04
        if id % a.sz(2, 1) != 0 && !want_c14 {
            continue;
        }
        let r = guarded(|| {
            let e = f.t.build(&mut mgr);
            let n = mgr.iter_derivatives(e).take(80).count();
            if n > 60 {
                return None;
            }
            let a1 = mgr.compile(e);
            let mut a2 = mgr.compile(e);
            let mut a3 = mgr.compile(e);
            touch(&a2);
            a2.minimize();
            if id % 2 == 0 {
                // prune a minimized automaton (its initial state need not be state 0 any more)
                a3.minimize();
                let a1b = { let mut x = mgr.compile(e); x.minimize(); x };
                touch(&a3);
                a3.remove_unreachable_states();
                let d3 = dump_automaton(&a3, &[], &[]);
                let d1 = dump_automaton(&a1b, &[], &d3.reps);
                let d3 = dump_automaton(&a3, &[], &d1.reps);
                let (s1, s3) = (structure(&a1b, &d1), structure(&a3, &d3));
                let d2 = dump_automaton(&a2, &[], &d1.reps);
                let d0 = dump_automaton(&a1, &[], &d2.reps);
                let d2 = dump_automaton(&a2, &[], &d0.reps);
                let s2 = structure(&a2, &d2);
                return Some((d0, d2, d1, d3, s1, s2, s3));
            }
            touch(&a3);
            a3.remove_unreachable_states();
            let d2 = dump_automaton(&a2, &[], &[]);
            let d3 = dump_automaton(&a3, &[], &d2.reps);
            let d1 = dump_automaton(&a1, &[], &d3.reps);
            let d2 = dump_automaton(&a2, &[], &d1.reps);
            let d3 = dump_automaton(&a3, &[], &d1.reps);
            let s2 = structure(&a2, &d2);
            let s1 = structure(&a1, &d1);
            let s3 = structure(&a3, &d3);
            Some((d1.clone(), d2, d1, d3, s1, s2, s3))
        });
        match r {
            Ok(Some((d0, d2, d1, d3, s1, s2, s3))) => {
                if want_min {
                    o1.emit(json!({"op":"minimize","ast":f.t.json(),"style":9,"before":d0.json(),"after":d2.json(),"str":s2}));
                }
                if want_c14 {
                    o2.emit(json!({"op":"prune","ast":f.t.json(),"style":9,"before":d1.json(),"after":d3.json(),"str":s1,"str_after":s3,"csn":[]}));
                }
            }
            Ok(None) => {}
            Err(msg) => {
                o1.emit(json!({"op":"panic","ast":f.t.json(),"where":"compile/minimize/prune","msg":msg}));
                mgr = ReManager::new();
            }
        }
    }
    let (n1, n2) = (o1.finish(), o2.finish());
    println!("{{\"family\":\"automata-random\",\"minimize\":{},\"prune\":{}}}", n1, n2);
}

#[allow(dead_code)]
fn unused(_: ClassId, _: T) {}

// ------------------------------------------------------------------------------------------
// Hopcroft refinement runs recorded through the cfg-guarded hooks (growth beyond the listed
// properties: the private state machine of minimizer.rs is bound to spec/Hopcroft.tla)

fn hop_events_json(evs: Vec<aws_smt_strings::verif_hooks::Event>) -> Vec<Value> {
    use aws_smt_strings::verif_hooks::Event;
    let inc = |v: &Vec<u32>| -> Vec<u32> { v.iter().map(|x| x + 1).collect() };
    evs.into_iter()
        .map(|e| match e {
            Event::HopNew { n, m, delta, finals } => {
                let d: Vec<Vec<u32>> = delta.iter().map(|r| r.iter().map(|x| x + 1).collect()).collect();
                json!({"k":"new","n":n,"m":m,"delta":d,"final":finals})
            }
            Event::HopState { what, blocks, active } => {
                let b: Vec<Vec<u32>> = blocks.iter().map(inc).collect();
                let a: Vec<Value> = active.iter().map(|(blk, c)| json!({"b": inc(blk), "c": c + 1})).collect();
                json!({"k":"state","what":what,"blocks":b,"active":a})
            }
            Event::HopPick { block, ch, pred } => json!({"k":"pick","b":inc(&block),"c":ch + 1,"pred":inc(&pred)}),
        })
        .collect()
}

fn hop_record(d: &AbsDfa, style: usize) -> Value {
    use aws_smt_strings::verif_hooks;
    let r = guarded(|| -> Result<Vec<Value>, String> {
        let mut a = build_abs(d, style)?;
        verif_hooks::record(true);
        a.minimize();
        let evs = verif_hooks::drain();
        verif_hooks::record(false);
        Ok(hop_events_json(evs))
    });
    aws_smt_strings::verif_hooks::record(false);
    match r {
        Ok(Ok(evs)) => json!({"op":"hopcroft","abs":abs_json(d),"style":style,"events":evs}),
        Ok(Err(e)) => json!({"op":"build_failed","err":e}),
        Err(msg) => json!({"op":"panic","where":"minimize (hooked)","msg":msg,"abs":abs_json(d)}),
    }
}

/// refinement traces for TLC-generated DFAs (--scen) and for random DFAs
pub fn drive_hopcroft(a: &Args) {
    let mut rng = Rng::new(a.seed ^ 0x40B);
    let mut out = Out::create(&a.out, "hopcroft.ndjson");
    if let Some(path) = arg(a, "--scen") {
        for (k, sc) in read_lines(&path).iter().enumerate() {
            let delta: Vec<Vec<usize>> = sc["delta"].as_array().unwrap().iter().map(|r| r.as_array().unwrap().iter().map(|x| x.as_u64().unwrap() as usize - 1).collect()).collect();
            let finals: Vec<bool> = sc["final"].as_array().unwrap().iter().map(|x| x.as_bool().unwrap()).collect();
            let nl = delta[0].len() as u32;
            let lay = Layout::new(nl - 1, &mut rng, true);
            let letters: Vec<(u32, u32)> = (0..nl).map(|i| (lay.lo(i), lay.hi(i))).collect();
            let d = AbsDfa { n: delta.len(), letters, delta, finals };
            out.emit(hop_record(&d, k % 3));
        }
    }
    for k in 0..a.sz(1200, 30000) {
        let d = if k % 3 == 0 { random_abs(&mut rng, 5, 3) } else { random_abs(&mut rng, 10, 4) };
        out.emit(hop_record(&d, k % 3));
    }
    let n = out.finish();
    println!("{{\"family\":\"hopcroft\",\"events\":{}}}", n);
}

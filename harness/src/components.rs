//! Growth: the private building blocks (re-exported by the crate under the verification cfg)
//! driven directly by TLC-generated operation sequences (MC_Components); after every operation
//! the result and the observable state are logged for Trace_Components.tla.
use crate::util::*;
use aws_smt_strings::verif_hooks::{BfsQueue, CompactTableBuilder, FastSet, LabeledQueue, Partition};
use serde_json::{json, Value};

fn u(v: &Value, f: &str) -> u32 {
    v[f].as_u64().unwrap() as u32
}

fn fastset(sc: &Value, universe: u32) -> Value {
    let mut s = FastSet::new(universe);
    let mut steps = vec![];
    for o in sc["ops"].as_array().unwrap() {
        let x = u(o, "x");
        let res: i64 = match o["op"].as_str().unwrap() {
            "insert" => { s.insert(x); -1 }
            "remove" => { s.remove(x); -1 }
            "reset" => { s.reset(); -1 }
            _ => s.contains(x) as i64,
        };
        let mut elems: Vec<u32> = s.iter().collect();
        let n_iter = elems.len();
        elems.sort();
        let members: Vec<u32> = (0..universe).filter(|&y| s.contains(y)).collect();
        steps.push(json!({"res": res, "card": s.card(), "iter": elems, "n_iter": n_iter, "members": members}));
    }
    json!({"op":"cmp","kind":"fastset","ops":sc["ops"],"steps":steps})
}

fn bfsqueue(sc: &Value) -> Value {
    let mut q: BfsQueue<u32> = BfsQueue::new();
    let mut steps = vec![];
    for o in sc["ops"].as_array().unwrap() {
        let res: i64 = match o["op"].as_str().unwrap() {
            "push" => q.push(u(o, "x")) as i64,
            _ => q.pop().map(|x| x as i64).unwrap_or(-1),
        };
        steps.push(json!({"res": res, "len": q.len(), "empty": q.is_empty()}));
    }
    json!({"op":"cmp","kind":"bfsqueue","ops":sc["ops"],"steps":steps})
}

fn labeledqueue(sc: &Value, universe: u32) -> Value {
    let mut q: LabeledQueue<u32, u32> = LabeledQueue::new(0);
    let mut steps = vec![];
    for o in sc["ops"].as_array().unwrap() {
        let res: i64 = match o["op"].as_str().unwrap() {
            "push" => q.push(u(o, "x"), u(o, "l"), u(o, "y")) as i64,
            _ => q.pop().map(|x| x as i64).unwrap_or(-1),
        };
        let paths: Vec<Value> = (0..universe)
            .map(|n| match q.path(&n) {
                Some(p) => json!({"n": n, "seen": true, "visited": q.visited(&n), "path": p}),
                None => json!({"n": n, "seen": false, "visited": q.visited(&n), "path": []}),
            })
            .collect();
        steps.push(json!({"res": res, "empty": q.is_empty(), "paths": paths}));
    }
    json!({"op":"cmp","kind":"labeledqueue","ops":sc["ops"],"steps":steps})
}

/// breadth-first search of a graph through LabeledQueue, the way get_string uses it
fn bfs(sc: &Value) -> Value {
    let succ: Vec<(u32, u32)> = sc["succ"].as_array().unwrap().iter().map(|p| (p[0].as_u64().unwrap() as u32, p[1].as_u64().unwrap() as u32)).collect();
    let mut q: LabeledQueue<u32, u32> = LabeledQueue::new(0);
    let mut order = vec![];
    while let Some(n) = q.pop() {
        order.push(n);
        let (a, b) = succ[n as usize];
        q.push(n, 0, a);
        q.push(n, 1, b);
    }
    let paths: Vec<Value> = (0..succ.len() as u32)
        .map(|n| match q.full_path(&n) {
            Some(p) => json!({"n": n, "seen": true, "path": p.iter().map(|(_, l)| *l).collect::<Vec<u32>>(),
                "nodes": p.iter().map(|(x, _)| *x).collect::<Vec<u32>>()}),
            None => json!({"n": n, "seen": false, "path": [], "nodes": []}),
        })
        .collect();
    json!({"op":"cmp","kind":"bfs","succ":sc["succ"],"order":order,"paths":paths})
}

fn table(sc: &Value) -> Value {
    let (n, m) = (u(sc, "n"), u(sc, "m"));
    let mut b = CompactTableBuilder::new(n, m);
    for (s, d) in sc["dflt"].as_array().unwrap().iter().enumerate() {
        b.set_default(s as u32, d.as_u64().unwrap() as u32);
    }
    for (s, e) in sc["exc"].as_array().unwrap().iter().enumerate() {
        let v: Vec<(u32, u32)> = e.as_array().unwrap().iter().map(|p| (p[0].as_u64().unwrap() as u32, p[1].as_u64().unwrap() as u32)).collect();
        b.set_successors(s as u32, &v);
    }
    let t = b.build();
    let cells: Vec<Vec<u32>> = (0..n).map(|s| (0..m).map(|c| t.eval(s, c)).collect()).collect();
    json!({"op":"cmp","kind":"table","n":n,"m":m,"dflt":sc["dflt"],"exc":sc["exc"],"cells":cells,
        "num_states":t.num_states(),"alphabet_size":t.alphabet_size()})
}

fn partition(sc: &Value) -> Value {
    let n = u(sc, "n");
    let mut p = Partition::new(n);
    let mut steps = vec![];
    for st in sc["steps"].as_array().unwrap() {
        let i = u(st, "i");
        let xs: Vec<u32> = st["X"].as_array().unwrap().iter().map(|x| x.as_u64().unwrap() as u32).collect();
        if i >= p.num_blocks() {
            steps.push(json!({"skipped": true, "r1": 0, "r2": 0, "blocks": [], "ids": [], "index": p.index()}));
            continue;
        }
        let (r1, r2) = p.refine_block(i, |y| xs.contains(&y));
        let blocks: Vec<Vec<u32>> = (1..p.num_blocks()).map(|b| { let mut v: Vec<u32> = p.block_elements(b).collect(); v.sort(); v }).collect();
        let ids: Vec<u32> = (0..n).map(|x| p.block_id(x)).collect();
        steps.push(json!({"skipped": false, "r1": r1, "r2": r2, "blocks": blocks, "ids": ids, "index": p.index(),
            "sizes": (1..p.num_blocks()).map(|b| p.block_size(b)).collect::<Vec<u32>>()}));
    }
    json!({"op":"cmp","kind":"partition","n":n,"steps_in":sc["steps"],"steps":steps})
}

pub fn replay(a: &Args) {
    let path = a.rest.iter().position(|x| x == "--scen").map(|i| a.rest[i + 1].clone()).expect("--scen FILE");
    let universe: u32 = a.rest.iter().position(|x| x == "--universe").map(|i| a.rest[i + 1].parse().unwrap()).unwrap_or(3);
    let text = std::fs::read_to_string(&path).expect("scenario file");
    let mut out = Out::create(&a.out, "components.ndjson");
    for line in text.lines().filter(|l| !l.trim().is_empty()) {
        let sc: Value = serde_json::from_str(line).expect("scenario json");
        let kind = sc["kind"].as_str().unwrap().to_string();
        let r = guarded(|| match kind.as_str() {
            "fastset" => fastset(&sc, universe),
            "bfsqueue" => bfsqueue(&sc),
            "labeledqueue" => labeledqueue(&sc, universe),
            "bfs" => bfs(&sc),
            "table" => table(&sc),
            _ => partition(&sc),
        });
        match r {
            Ok(v) => out.emit(v),
            Err(msg) => out.emit(json!({"op":"panic","where":format!("component {}", kind),"msg":msg,"scen":sc})),
        }
    }
    let n = out.finish();
    println!("{{\"family\":\"components\",\"events\":{}}}", n);
}

//! C07: histories on one manager.  `replay manager` executes TLC-generated histories
//! (MC_Manager: prefix of disturbing calls, then a target construction), re-issues every earlier
//! construction and queries the target, on a fresh ReManager, on the thread-local manager in a
//! fresh thread, and on a long-lived thread-local manager.  `drive manager` adds long seeded
//! random histories.  Judged by Trace_Manager.tla.
use crate::dump::addr;
use crate::terms::*;
use crate::util::*;
use aws_smt_strings::regular_expressions::{ReManager, RegLan};
use aws_smt_strings::smt_regular_expressions as smt;
use aws_smt_strings::smt_strings::SmtString;
use serde_json::{json, Value};
use std::collections::HashMap;

pub fn t_from_json(j: &Value) -> T {
    let k = j["k"].as_str().unwrap();
    let sub = |f: &str| Box::new(t_from_json(&j[f]));
    let list = |f: &str| -> Vec<T> { j[f].as_array().unwrap().iter().map(t_from_json).collect() };
    let n = |f: &str| j[f].as_i64().unwrap();
    match k {
        "none" => T::None,
        "eps" => T::Eps,
        "all" => T::All,
        "allchar" => T::AllChar,
        "sigmaplus" => T::SigmaPlus,
        "chr" => T::Chr(n("c") as u32),
        "rng" => T::Rng(n("lo") as u32, n("hi") as u32),
        "str" => T::Str(j["w"].as_array().unwrap().iter().map(|x| x.as_u64().unwrap() as u32).collect()),
        "cat" => {
            let v = list("xs");
            if v.len() == 2 { T::Cat2(Box::new(v[0].clone()), Box::new(v[1].clone())) } else { T::CatL(v) }
        }
        "alt" => {
            let v = list("xs");
            if v.len() == 2 { T::Alt2(Box::new(v[0].clone()), Box::new(v[1].clone())) } else { T::AltL(v) }
        }
        "and" => {
            let v = list("xs");
            if v.len() == 2 { T::And2(Box::new(v[0].clone()), Box::new(v[1].clone())) } else { T::AndL(v) }
        }
        "not" => T::Not(sub("a")),
        "diff" => {
            let v = list("xs");
            if v.len() == 1 { T::Diff1(sub("a"), Box::new(v[0].clone())) } else { T::DiffL(sub("a"), v) }
        }
        "star" => T::Star(sub("a")),
        "plus" => T::Plus(sub("a")),
        "opt" => T::Opt(sub("a")),
        "pow" => T::Pow(sub("a"), n("n") as u32),
        "smtloop" => T::SmtLoop(sub("a"), n("lo") as u32, n("hi") as u32),
        "loop" => T::Loop(sub("a"), n("lo") as u32, if n("hi") < 0 { None } else { Some(n("hi") as u32) }),
        "quot" => T::Quot(n("c") as u32, sub("a")),
        other => panic!("harness: unknown AST kind {}", other),
    }
}

/// identities: distinct addresses -> 1, 2, 3, ... (TLC integers are 32-bit)
pub struct Ids {
    map: HashMap<usize, u32>,
}
impl Ids {
    pub fn new() -> Ids {
        Ids { map: HashMap::new() }
    }
    pub fn of(&mut self, e: RegLan) -> u32 {
        let n = self.map.len() as u32 + 1;
        *self.map.entry(addr(e)).or_insert(n)
    }
}

pub enum Surface<'a> {
    Mgr(&'a mut ReManager),
    Smt,
}

pub struct Hist {
    pub ev: Vec<Value>,
    pub ids: Ids,
    pub handles: Vec<RegLan>,
}

impl Hist {
    pub fn new() -> Hist {
        Hist { ev: vec![], ids: Ids::new(), handles: vec![] }
    }

    fn log_mk(&mut self, api: &str, args: &[RegLan], lits: &[i64], res: RegLan, ast: &T) {
        let mut key: Vec<i64> = args.iter().map(|&a| self.ids.of(a) as i64).collect();
        // a separator keeps (args, literals) unambiguous
        key.push(-7);
        key.extend_from_slice(lits);
        let id = self.ids.of(res);
        self.handles.push(res);
        self.ev.push(json!({"k":"mk","api":api,"key":key,"res":id,"nullable":res.nullable,"ast":ast.json()}));
    }

    /// build t bottom-up, logging every constructor call
    pub fn build(&mut self, s: &mut Surface<'_>, t: &T) -> RegLan {
        macro_rules! both {
            ($m:ident => $mexpr:expr, $sexpr:expr) => {
                match s {
                    Surface::Mgr($m) => $mexpr,
                    Surface::Smt => $sexpr,
                }
            };
        }
        let smtstr = |w: &Vec<u32>| SmtString::from(w.clone());
        let lits_of = |w: &Vec<u32>| -> Vec<i64> { w.iter().map(|&x| x as i64).collect() };
        match t {
            T::None => {
                let r = both!(m => m.empty(), smt::re_none());
                self.log_mk(both!(_m => "empty", "re_none"), &[], &[], r, t);
                r
            }
            T::Eps => {
                let r = both!(m => m.epsilon(), smt::str_to_re(&SmtString::from(Vec::<u32>::new())));
                self.log_mk(both!(_m => "epsilon", "str_to_re"), &[], &[], r, t);
                r
            }
            T::All => {
                let r = both!(m => m.full(), smt::re_all());
                self.log_mk(both!(_m => "full", "re_all"), &[], &[], r, t);
                r
            }
            T::AllChar => {
                let r = both!(m => m.all_chars(), smt::re_allchar());
                self.log_mk(both!(_m => "all_chars", "re_allchar"), &[], &[], r, t);
                r
            }
            T::SigmaPlus => {
                let r = both!(m => m.sigma_plus(), { let a = smt::re_allchar(); smt::re_plus(a) });
                self.log_mk(both!(_m => "sigma_plus", "re_plus(re_allchar)"), &[], &[], r, t);
                r
            }
            T::Chr(c) => {
                let r = both!(m => m.char(*c), smt::str_to_re(&SmtString::from(vec![*c])));
                self.log_mk(both!(_m => "char", "str_to_re"), &[], &[*c as i64], r, t);
                r
            }
            T::Rng(a, b) => {
                let r = both!(m => m.range(*a, *b), smt::re_range(&SmtString::from(vec![*a]), &SmtString::from(vec![*b])));
                self.log_mk(both!(_m => "range", "re_range"), &[], &[*a as i64, *b as i64], r, t);
                r
            }
            T::Str(w) => {
                let r = both!(m => m.str(&smtstr(w)), smt::str_to_re(&smtstr(w)));
                self.log_mk(both!(_m => "str", "str_to_re"), &[], &lits_of(w), r, t);
                r
            }
            T::SmtRange(a, b) => {
                let r = both!(m => m.smt_range(&smtstr(a), &smtstr(b)), smt::re_range(&smtstr(a), &smtstr(b)));
                let mut l = lits_of(a);
                l.push(-8);
                l.extend(lits_of(b));
                self.log_mk(both!(_m => "smt_range", "re_range"), &[], &l, r, t);
                r
            }
            T::Cat2(a, b) => {
                let (x, y) = (self.build(s, a), self.build(s, b));
                let r = both!(m => m.concat(x, y), smt::re_concat(x, y));
                self.log_mk(both!(_m => "concat", "re_concat"), &[x, y], &[], r, t);
                r
            }
            T::Alt2(a, b) => {
                let (x, y) = (self.build(s, a), self.build(s, b));
                let r = both!(m => m.union(x, y), smt::re_union(x, y));
                self.log_mk(both!(_m => "union", "re_union"), &[x, y], &[], r, t);
                r
            }
            T::And2(a, b) => {
                let (x, y) = (self.build(s, a), self.build(s, b));
                let r = both!(m => m.inter(x, y), smt::re_inter(x, y));
                self.log_mk(both!(_m => "inter", "re_inter"), &[x, y], &[], r, t);
                r
            }
            T::Diff1(a, b) => {
                let (x, y) = (self.build(s, a), self.build(s, b));
                let r = both!(m => m.diff(x, y), smt::re_diff(x, y));
                self.log_mk(both!(_m => "diff", "re_diff"), &[x, y], &[], r, t);
                r
            }
            T::CatL(v) => {
                let xs: Vec<RegLan> = v.iter().map(|x| self.build(s, x)).collect();
                let r = both!(m => m.concat_list(crate::terms::listy(xs.clone())), smt::re_concat_list(crate::terms::listy(xs.clone())));
                self.log_mk(both!(_m => "concat_list", "re_concat_list"), &xs, &[], r, t);
                r
            }
            T::AltL(v) => {
                let xs: Vec<RegLan> = v.iter().map(|x| self.build(s, x)).collect();
                let r = both!(m => m.union_list(crate::terms::listy(xs.clone())), smt::re_union_list(crate::terms::listy(xs.clone())));
                self.log_mk(both!(_m => "union_list", "re_union_list"), &xs, &[], r, t);
                r
            }
            T::AndL(v) => {
                let xs: Vec<RegLan> = v.iter().map(|x| self.build(s, x)).collect();
                let r = both!(m => m.inter_list(crate::terms::listy(xs.clone())), smt::re_inter_list(crate::terms::listy(xs.clone())));
                self.log_mk(both!(_m => "inter_list", "re_inter_list"), &xs, &[], r, t);
                r
            }
            T::DiffL(a, v) => {
                let x = self.build(s, a);
                let xs: Vec<RegLan> = v.iter().map(|y| self.build(s, y)).collect();
                let r = both!(m => m.diff_list(x, crate::terms::listy(xs.clone())), smt::re_diff_list(x, crate::terms::listy(xs.clone())));
                let mut all = vec![x];
                all.extend(xs);
                self.log_mk(both!(_m => "diff_list", "re_diff_list"), &all, &[], r, t);
                r
            }
            T::Not(a) => {
                let x = self.build(s, a);
                let r = both!(m => m.complement(x), smt::re_comp(x));
                self.log_mk(both!(_m => "complement", "re_comp"), &[x], &[], r, t);
                r
            }
            T::Star(a) => {
                let x = self.build(s, a);
                let r = both!(m => m.star(x), smt::re_star(x));
                self.log_mk(both!(_m => "star", "re_star"), &[x], &[], r, t);
                r
            }
            T::Plus(a) => {
                let x = self.build(s, a);
                let r = both!(m => m.plus(x), smt::re_plus(x));
                self.log_mk(both!(_m => "plus", "re_plus"), &[x], &[], r, t);
                r
            }
            T::Opt(a) => {
                let x = self.build(s, a);
                let r = both!(m => m.opt(x), smt::re_opt(x));
                self.log_mk(both!(_m => "opt", "re_opt"), &[x], &[], r, t);
                r
            }
            T::Pow(a, n) => {
                let x = self.build(s, a);
                let r = both!(m => m.exp(x, *n), smt::re_power(x, *n));
                self.log_mk(both!(_m => "exp", "re_power"), &[x], &[*n as i64], r, t);
                r
            }
            T::SmtLoop(a, i, j) => {
                let x = self.build(s, a);
                let r = both!(m => m.smt_loop(x, *i, *j), smt::re_loop(x, *i, *j));
                self.log_mk(both!(_m => "smt_loop", "re_loop"), &[x], &[*i as i64, *j as i64], r, t);
                r
            }
            T::Loop(a, i, j) => {
                let x = self.build(s, a);
                let r = match s {
                    Surface::Mgr(m) => {
                        let range = match j {
                            Some(j) => aws_smt_strings::loop_ranges::LoopRange::finite(*i, *j),
                            None => aws_smt_strings::loop_ranges::LoopRange::infinite(*i),
                        };
                        m.mk_loop(x, range)
                    }
                    Surface::Smt => panic!("harness: mk_loop has no wrapper"),
                };
                self.log_mk("mk_loop", &[x], &[*i as i64, j.map(|v| v as i64).unwrap_or(-1)], r, t);
                r
            }
            T::Quot(c, a) => {
                // not a constructor: the derivative is taken (and cached) but no memo obligation is attached
                let x = self.build(s, a);
                match s {
                    Surface::Mgr(m) => m.char_derivative(x, *c),
                    Surface::Smt => panic!("harness: no derivative through the wrappers"),
                }
            }
        }
    }

    /// a call that allocates ids / fills the derivative cache without constructing anything new by name
    pub fn disturb(&mut self, s: &mut Surface<'_>, what: &str, t: &T, c: u32) {
        let e = self.build(s, t);
        match s {
            Surface::Mgr(m) => match what {
                "deriv" => {
                    let _ = m.char_derivative(e, c);
                }
                "compile" => {
                    let _ = m.compile(e);
                }
                "empty" => {
                    let _ = m.is_empty_re(e);
                }
                _ => {
                    let _ = m.iter_derivatives(e).count();
                }
            },
            Surface::Smt => {
                // the wrappers expose no derivative API: membership and replace drive derivatives and the cache
                let w = SmtString::from(vec![c.max(97), 98, 97]);
                let _ = smt::str_in_re(&w, e);
                let _ = smt::str_replace_re_all(&w, e, &SmtString::from(vec![120]));
            }
        }
        self.ev.push(json!({"k":"disturb","what":what}));
    }

    pub fn queries(&mut self, s: &mut Surface<'_>, e: RegLan, t: &T, rng: &mut Rng) {
        let letters = [97u32, 98, 99];
        let mut words: Vec<Vec<u32>> = vec![vec![]];
        for &a in &letters {
            words.push(vec![a]);
            for &b in &letters[..2] {
                words.push(vec![a, b]);
            }
        }
        for _ in 0..4 {
            let n = rng.range(3, 5) as usize;
            words.push((0..n).map(|_| *rng.pick(&letters)).collect());
        }
        let res: Vec<bool> = words
            .iter()
            .map(|w| {
                let ss = SmtString::from(w.clone());
                match s {
                    Surface::Mgr(m) => m.str_in_re(&ss, e),
                    Surface::Smt => smt::str_in_re(&ss, e),
                }
            })
            .collect();
        self.ev.push(json!({"k":"mem","ast":t.json(),"words":words,"res":res}));
        if let Surface::Mgr(m) = s {
            let r = m.is_empty_re(e);
            self.ev.push(json!({"k":"empty","ast":t.json(),"res":r}));
        }
    }

    pub fn eq_samples(&mut self, rng: &mut Rng, n: usize) {
        let h = self.handles.clone();
        if h.is_empty() {
            return;
        }
        for _ in 0..n {
            let (x, y) = (*rng.pick(&h), *rng.pick(&h));
            let (ix, iy) = (self.ids.of(x), self.ids.of(y));
            self.ev.push(json!({"k":"eq","a":ix,"b":iy,"eq":x == y,"ptr":std::ptr::eq(x, y)}));
        }
    }
}

struct Item {
    what: String,
    t: T,
    c: u32,
}

/// exact language of the target in THIS history: its derivative graph as a product case
fn history_product(m: &mut ReManager, e: RegLan, target: &T) -> Option<Value> {
    if target.cost() > crate::regex::COST_LIMIT {
        return None;
    }
    let mut ends = vec![];
    target.ends(&mut ends);
    let g = crate::dump::dgraph(m, e, &ends, &[]);
    if g.nodes.len() > 60 {
        return None;
    }
    let mut mm = serde_json::Map::new();
    mm.insert("op".into(), json!("dgraph"));
    mm.insert("ast".into(), target.json());
    g.json_fields(&mut mm);
    mm.insert("roots".into(), json!([{"w": [], "s": g.node_of(e), "tag": "C07:language_exact_in_this_history"}]));
    mm.insert("nullable".into(), json!(e.nullable));
    Some(Value::Object(mm))
}

fn run_history(s: &mut Surface<'_>, prefix: &[Item], target: &T, rng: &mut Rng) -> Vec<Value> {
    run_history_p(s, prefix, target, rng).0
}

fn run_history_p(s: &mut Surface<'_>, prefix: &[Item], target: &T, rng: &mut Rng) -> (Vec<Value>, Option<Value>) {
    let mut h = Hist::new();
    let mut prod = None;
    let r = guarded(|| {
        for it in prefix {
            if it.what == "mk" {
                h.build(s, &it.t);
            } else {
                h.disturb(s, &it.what, &it.t, it.c);
            }
        }
        let e = h.build(s, target);
        // more allocation between the target and its re-issue
        h.disturb(s, "deriv", target, 97);
        // re-issue every earlier construction, then the target again
        for it in prefix {
            h.build(s, &it.t);
        }
        let e2 = h.build(s, target);
        let (i1, i2) = (h.ids.of(e), h.ids.of(e2));
        h.ev.push(json!({"k":"eq","a":i1,"b":i2,"eq":e == e2,"ptr":std::ptr::eq(e, e2)}));
        h.queries(s, e2, target, rng);
        h.eq_samples(rng, 6);
        if let Surface::Mgr(m) = s {
            prod = history_product(m, e2, target);
        }
    });
    if let Err(msg) = r {
        h.ev.push(json!({"k":"panic","msg":msg}));
    }
    (h.ev, prod)
}

fn read_lines(path: &str) -> Vec<Value> {
    std::fs::read_to_string(path)
        .expect("scenario file")
        .lines()
        .filter(|l| !l.trim().is_empty())
        .map(|l| serde_json::from_str(l).expect("scenario json"))
        .collect()
}

pub fn replay(a: &Args) {
    let path = a.rest.iter().position(|x| x == "--scen").map(|i| a.rest[i + 1].clone()).expect("--scen FILE");
    let scen = read_lines(&path);
    let mut out = Out::create(&a.out, "manager_hist.ndjson");
    let parsed: Vec<(Vec<Item>, T)> = scen
        .iter()
        .map(|sc| {
            let prefix: Vec<Item> = sc["prefix"]
                .as_array()
                .unwrap()
                .iter()
                .map(|it| Item { what: it["do"].as_str().unwrap().to_string(), t: t_from_json(&it["t"]), c: it["c"].as_u64().unwrap() as u32 })
                .collect();
            (prefix, t_from_json(&sc["target"]))
        })
        .collect();
    let mut rng = Rng::new(a.seed);
    // (1) a fresh ReManager per history
    let mut pout = Out::create(&a.out, "manager_products.ndjson");
    for (prefix, target) in &parsed {
        let mut m = ReManager::new();
        let (ev, prod) = run_history_p(&mut Surface::Mgr(&mut m), prefix, target, &mut rng);
        out.emit(json!({"op":"history","via":"manager-fresh","events":ev}));
        if let Some(p) = prod {
            pout.emit(p);
        }
    }
    let np = pout.finish();
    // (2) the thread-local manager: a fresh thread per chunk (the first history of each chunk sees a
    //     fresh manager, the following ones a manager that already served earlier histories)
    let seed = a.seed;
    let smt_ok = |t: &T| t.smt_form() == *t || true;
    let _ = smt_ok;
    let chunks: Vec<Vec<(Vec<(String, T, u32)>, T)>> = parsed
        .chunks(a.sz(40, 15))
        .map(|ch| ch.iter().map(|(p, t)| (p.iter().map(|i| (i.what.clone(), i.t.smt_form(), i.c)).collect(), t.smt_form())).collect())
        .collect();
    for (ci, chunk) in chunks.into_iter().enumerate() {
        if !a.thorough() && ci % 2 == 1 {
            continue;
        }
        let recs = std::thread::spawn(move || {
            let mut rng = Rng::new(seed ^ (ci as u64) << 8);
            let mut recs = vec![];
            for (k, (p, t)) in chunk.iter().enumerate() {
                let prefix: Vec<Item> = p.iter().map(|(w, t, c)| Item { what: w.clone(), t: t.clone(), c: *c }).collect();
                let ev = run_history(&mut Surface::Smt, &prefix, t, &mut rng);
                recs.push(json!({"op":"history","via": if k == 0 { "smt-fresh" } else { "smt-dirty" },"events":ev}));
            }
            recs
        })
        .join()
        .expect("wrapper thread");
        for r in recs {
            out.emit(r);
        }
    }
    let n = out.finish();
    println!("{{\"family\":\"manager-replay\",\"histories\":{},\"records\":{},\"products\":{}}}", parsed.len(), n, np);
}

/// long random histories on one manager
pub fn drive(a: &Args) {
    let mut rng = Rng::new(a.seed ^ 0xC07);
    let mut out = Out::create(&a.out, "manager_random.ndjson");
    let pool = Pool::new(&mut rng, true);
    for hno in 0..a.sz(12, 120) {
        let mut m = ReManager::new();
        let mut h = Hist::new();
        let r = guarded(|| {
            let mut made: Vec<T> = vec![];
            let len = a.sz(60, 150);
            for step in 0..len {
                let mut s = Surface::Mgr(&mut m);
                match rng.below(10) {
                    0..=4 => {
                        let t = random_term(&mut rng, 2 + (step % 2), &pool);
                        h.build(&mut s, &t);
                        made.push(t);
                    }
                    5 | 6 if !made.is_empty() => {
                        // re-issue an earlier construction
                        let t = rng.pick(&made).clone();
                        h.build(&mut s, &t);
                    }
                    7 if !made.is_empty() => {
                        let t = rng.pick(&made).clone();
                        if t.cost() <= 30 {
                            let what = *rng.pick(&["deriv", "compile", "empty", "iter"]);
                            h.disturb(&mut s, what, &t, *rng.pick(&pool.letters()));
                        }
                    }
                    8 if !made.is_empty() => {
                        // operators over earlier terms: sensitive to the id order of operands
                        let (x, y) = (rng.pick(&made).clone(), rng.pick(&made).clone());
                        let t = match rng.below(4) {
                            0 => T::Alt2(Box::new(x.clone()), Box::new(T::Not(Box::new(x)))),
                            1 => T::AndL(vec![x.clone(), y, T::Not(Box::new(x))]),
                            2 => T::Alt2(Box::new(y), Box::new(x)),
                            _ => T::Not(Box::new(T::Not(Box::new(x)))),
                        };
                        h.build(&mut s, &t);
                        made.push(t);
                    }
                    _ => h.eq_samples(&mut rng, 2),
                }
            }
            // final re-issue of a sample, with queries
            for _ in 0..6 {
                if made.is_empty() {
                    break;
                }
                let t = rng.pick(&made).clone();
                let mut s = Surface::Mgr(&mut m);
                let e = h.build(&mut s, &t);
                if t.cost() <= 30 {
                    h.queries(&mut s, e, &t, &mut rng);
                }
            }
        });
        if let Err(msg) = r {
            h.ev.push(json!({"k":"panic","msg":msg}));
        }
        let _ = hno;
        out.emit(json!({"op":"history","via":"manager-long","events":h.ev}));
    }
    // scale: an expression with more than 2^16 derivative classes (one-character strings over 65 792 isolated
    // code points 0, 2, 4, ...), queried in two different orders on two managers
    let groups: Vec<T> = (0..257u32)
        .map(|g| T::Not(Box::new(T::AndL((0..256u32).map(|j| T::Not(Box::new(T::Chr(2 * (g * 256 + j))))).collect()))))
        .collect();
    let big = T::AltL(groups);
    let queries: Vec<(bool, Vec<u32>)> = vec![
        (false, vec![2 * 65536]), (true, vec![0, 0]), (true, vec![0]), (false, vec![0]), (false, vec![2 * 65535]),
        (true, vec![2 * 65535]), (false, vec![2 * 65791]), (false, vec![2 * 65792]), (false, vec![1]), (true, vec![1]),
        (true, vec![2 * 65536, 7]), (false, vec![]),
    ];
    for order in 0..2 {
        let mut m = ReManager::new();
        let mut ev = vec![];
        let r = guarded(|| {
            let e = big.build(&mut m);
            let ne = m.complement(e);
            let mut qs = queries.clone();
            if order == 1 {
                qs.reverse();
            }
            for (neg, w) in qs {
                let res = m.str_in_re(&SmtString::from(w.clone()), if neg { ne } else { e });
                ev.push(json!({"k":"mem","ref":true,"neg":neg,"words":[w],"res":[res]}));
            }
            e.num_deriv_classes()
        });
        match r {
            Ok(nc) => out.emit(json!({"op":"scale_history","via":"manager-scale","classes":nc,"shared":big.json(),"events":ev})),
            Err(msg) => out.emit(json!({"op":"scale_history","via":"manager-scale","classes":0,"shared":{"k":"none"},"events":[{"k":"panic","msg":msg}]})),
        }
    }
    let n = out.finish();
    println!("{{\"family\":\"manager-random\",\"records\":{}}}", n);
}

//! C20: CharSet interval algebra.  Events go to charsets.ndjson, validated by Trace_Chars.tla.
use crate::util::*;
use aws_smt_strings::character_sets::CharSet;
use serde_json::{json, Value};
use std::cmp::Ordering;

fn cs(c: &CharSet) -> Value {
    // CharSet has no accessors for its end points; pick() is documented to return a member and
    // size() the cardinality, but using them here would trust the code under test.  The driver
    // therefore always carries the end points it constructed the set from.
    unreachable!("{:?}", c)
}

#[derive(Clone, Copy, Debug)]
struct Iv(u32, u32);
impl Iv {
    fn set(&self) -> CharSet {
        CharSet::range(self.0, self.1)
    }
    fn j(&self) -> Value {
        json!([self.0, self.1])
    }
}

/// end points of a result set are read through Debug ("CharSet { start: a, end: b }"), the only
/// public way to observe them exactly
pub fn endpoints(c: &CharSet) -> (u32, u32) {
    let s = format!("{:?}", c);
    let nums: Vec<u32> = s
        .split(|ch: char| !ch.is_ascii_digit())
        .filter(|t| !t.is_empty())
        .map(|t| t.parse().unwrap())
        .collect();
    assert_eq!(nums.len(), 2, "unexpected Debug form {}", s);
    (nums[0], nums[1])
}
pub fn opt_set(r: Option<CharSet>) -> Value {
    match r {
        None => json!([]),
        Some(c) => {
            let (a, b) = endpoints(&c);
            json!([a, b])
        }
    }
}

fn pair_ops(out: &mut Out, c: Iv, d: Iv) {
    let (sc, sd) = (c.set(), d.set());
    out.emit(json!({"op":"inter","c":c.j(),"d":d.j(),"r":opt_set(sc.inter(&sd))}));
    out.emit(json!({"op":"union","c":c.j(),"d":d.j(),"r":opt_set(sc.union(&sd))}));
    out.emit(json!({"op":"covers","c":c.j(),"d":d.j(),"r":sc.covers(&sd)}));
    let o = match sc.partial_cmp(&sd) {
        Some(Ordering::Equal) => "eq",
        Some(Ordering::Less) => "lt",
        Some(Ordering::Greater) => "gt",
        None => "none",
    };
    // the comparison operators are separate trait methods: each one is called
    #[allow(clippy::neg_cmp_op_on_partial_ord)]
    let ops = json!([sc < sd, sc <= sd, sc > sd, sc >= sd, sc != sd]);
    out.emit(json!({"op":"cmp","c":c.j(),"d":d.j(),"r":o,"eq":sc == sd,"ops":ops}));
}

fn unary_ops(out: &mut Out, c: Iv) {
    let s = c.set();
    out.emit(json!({"op":"unary","c":c.j(),"size":s.size(),"single":s.is_singleton(),
        "alpha":s.is_alphabet(),"pick":s.pick(),"ends":opt_set(Some(s))}));
}

fn point_ops(out: &mut Out, c: Iv, x: u32) {
    let s = c.set();
    out.emit(json!({"op":"point","c":c.j(),"x":x,"contains":s.contains(x),
        "before":s.is_before(x),"after":s.is_after(x)}));
}

fn list_op(out: &mut Out, l: &[Iv]) {
    let v: Vec<CharSet> = l.iter().map(|i| i.set()).collect();
    let js: Vec<Value> = l.iter().map(|i| i.j()).collect();
    out.emit(json!({"op":"interlist","cs":js,"r":opt_set(CharSet::inter_list(&v))}));
}

pub fn drive(a: &Args) {
    let _ = cs;
    let mut rng = Rng::new(a.seed);
    let mut out = Out::create(&a.out, "charsets.ndjson");
    // constructors
    let all = CharSet::all_chars();
    out.emit(json!({"op":"ctor","what":"all_chars","r":opt_set(Some(all))}));
    for x in [0u32, 1, 0x41, MAX_CHAR - 1, MAX_CHAR] {
        out.emit(json!({"op":"ctor","what":"singleton","x":x,"r":opt_set(Some(CharSet::singleton(x)))}));
    }
    // small scope, block-embedded: every pattern of <= 3 intervals occurs in 0..6
    let m: u32 = 6;
    let nlayouts = a.sz(2, 6);
    for li in 0..nlayouts {
        let lay = if li == 1 { Layout::edges(m) } else { Layout::new(m, &mut rng, li == 0) };
        let mut ivs = vec![];
        for lo in 0..=m {
            for hi in lo..=m {
                ivs.push(Iv(lay.lo(lo), lay.hi(hi)));
            }
        }
        for &c in &ivs {
            unary_ops(&mut out, c);
            for i in 0..=m {
                for x in lay.probes(i, &mut rng) {
                    point_ops(&mut out, c, x);
                }
            }
            for &d in &ivs {
                pair_ops(&mut out, c, d);
            }
        }
        // triples over the first five blocks merged pattern-wise (0..4 holds every pattern of 3
        // intervals up to adjacency that matters for a fold of intersections)
        let small: Vec<Iv> = ivs
            .iter()
            .cloned()
            .filter(|iv| iv.1 <= lay.hi(4))
            .collect();
        if li < 2 || a.thorough() {
            for &c in &small {
                for &d in &small {
                    for &e in &small {
                        list_op(&mut out, &[c, d, e]);
                    }
                }
            }
        }
        list_op(&mut out, &[]);
        for &c in &ivs {
            list_op(&mut out, &[c]);
        }
    }
    // random real intervals with +-1 neighbours
    let nr = a.sz(1500, 20000);
    for _ in 0..nr {
        let (p, q) = (rng.ch(), rng.ch());
        let c = Iv(p.min(q), p.max(q));
        let mut d = match rng.below(6) {
            0 => Iv(c.1.saturating_add(1).min(MAX_CHAR), (c.1.saturating_add(1 + rng.range(0, 5))).min(MAX_CHAR)),
            1 => {
                let hi = c.0.saturating_sub(1);
                Iv(hi.saturating_sub(rng.range(0, 5)), hi)
            }
            2 => Iv(c.1.saturating_add(2).min(MAX_CHAR), MAX_CHAR),
            3 => Iv(0, c.0.saturating_sub(2)),
            _ => {
                let (p, q) = (rng.ch(), rng.ch());
                Iv(p.min(q), p.max(q))
            }
        };
        if d.0 > d.1 {
            d = Iv(d.1, d.0);
        }
        pair_ops(&mut out, c, d);
        pair_ops(&mut out, d, c);
        unary_ops(&mut out, c);
        for x in [c.0.saturating_sub(1), c.0, c.1, (c.1 + 1).min(MAX_CHAR), rng.ch()] {
            point_ops(&mut out, c, x);
        }
        let k = rng.range(0, 5) as usize;
        let mut l = vec![];
        for _ in 0..k {
            let (p, q) = (rng.ch(), rng.ch());
            l.push(Iv(p.min(q), p.max(q)));
        }
        if rng.coin(1, 2) {
            l.push(c);
            l.push(d);
        }
        list_op(&mut out, &l);
    }
    // every interval between two landmark code points (ends of narrower character types, the surrogate block, the
    // replacement character, the planes): unary observations, membership around both ends, a few binary operations
    let mut lm: Vec<Iv> = vec![];
    for (i, &lo) in LANDMARKS.iter().enumerate() {
        for &hi in &LANDMARKS[i..] {
            lm.push(Iv(lo, hi));
        }
    }
    for (k, &c) in lm.iter().enumerate() {
        unary_ops(&mut out, c);
        for x in [c.0.saturating_sub(1), c.0, c.1, (c.1 + 1).min(MAX_CHAR)] {
            point_ops(&mut out, c, x);
        }
        for j in 0..4usize {
            let d = lm[(k * 7 + j * 53 + 11) % lm.len()];
            pair_ops(&mut out, c, d);
        }
    }
    // inter_list on lists of every length 0..24: nested staircases (the result is the innermost set), the same with one
    // disjoint set at each position, and chains of overlapping sets with an empty overall intersection
    for n in 0..=24u32 {
        let stairs: Vec<Iv> = (0..n).map(|k| Iv(100 + k, 200 - k)).collect();
        list_op(&mut out, &stairs);
        let mut rev = stairs.clone();
        rev.reverse();
        list_op(&mut out, &rev);
        for pos in [0usize, (n / 2) as usize, n as usize] {
            if pos <= stairs.len() {
                let mut l = stairs.clone();
                l.insert(pos, Iv(300, 310));
                list_op(&mut out, &l);
                let mut l2 = stairs.clone();
                l2.insert(pos, Iv(150, 150));
                list_op(&mut out, &l2);
            }
        }
        let chain: Vec<Iv> = (0..n).map(|k| Iv(10 * k, 10 * k + 14)).collect();
        list_op(&mut out, &chain);
    }
    let n = out.finish();
    println!("{{\"family\":\"charsets\",\"events\":{}}}", n);
}

//! C15: LoopRange arithmetic.  Events go to loopranges.ndjson (Trace_LoopRanges.tla).
use crate::util::*;
use aws_smt_strings::loop_ranges::LoopRange;
use serde_json::{json, Value};

type R = (u32, Option<u32>);

fn mk(r: R) -> LoopRange {
    match r.1 {
        Some(j) => LoopRange::finite(r.0, j),
        None => LoopRange::infinite(r.0),
    }
}
fn rj(r: R) -> Value {
    json!([r.0, match r.1 { Some(j) => j as i64, None => -1 }])
}
/// the bounds of a result are read through Debug: "LoopRange(2, Some(3))" / "LoopRange(2, None)"
fn out_json(x: &LoopRange) -> Value {
    let s = format!("{:?}", x);
    let nums: Vec<i64> = s.split(|c: char| !c.is_ascii_digit()).filter(|t| !t.is_empty()).map(|t| t.parse().unwrap()).collect();
    if s.contains("None") {
        json!([nums[0], -1])
    } else {
        json!([nums[0], nums[1]])
    }
}
fn res(f: impl FnOnce() -> LoopRange) -> Value {
    match guarded(f) {
        Ok(x) => out_json(&x),
        Err(_) => json!([-9, -9]),
    }
}

fn pair(out: &mut Out, r: R, s: R, small: bool) {
    let (a, b) = (mk(r), mk(s));
    let exact = guarded(|| a.right_mul_is_exact(&b));
    out.emit(json!({"op":"pair","small":small,"r":rj(r),"s":rj(s),
        "add":res(|| a.add(&b)),"mul":res(|| a.mul(&b)),"includes":a.includes(&b),
        "exact": match exact { Ok(x) => x, Err(_) => false }, "exact_panic": exact.is_err()}));
}

fn unary(out: &mut Out, r: R, ks: &[u32], small: bool) {
    let a = mk(r);
    let mut scale = vec![];
    for &k in ks {
        scale.push(json!({"k":k,"res":res(|| a.scale(k)),"add_point":res(|| a.add_point(k))}));
    }
    let mut probes: Vec<u32> = vec![0, r.0.saturating_sub(1), r.0, r.0 + 1];
    if let Some(j) = r.1 {
        probes.extend([j.saturating_sub(1), j, j + 1]);
    }
    let contains: Vec<Value> = probes.iter().map(|&i| json!([i, a.contains(i)])).collect();
    out.emit(json!({"op":"unary","small":small,"r":rj(r),"ctor":out_json(&a),"shift":res(|| a.shift()),"scale":scale,
        "contains":contains,"start":a.start(),"finite":a.is_finite(),"infinite":a.is_infinite(),"point":a.is_point(),
        "zero":a.is_zero(),"one":a.is_one(),"all":a.is_all()}));
}

pub fn drive(a: &Args) {
    let mut rng = Rng::new(a.seed);
    let mut out = Out::create(&a.out, "loopranges.ndjson");
    // named constructors
    out.emit(json!({"op":"named","opt":out_json(&LoopRange::opt()),"star":out_json(&LoopRange::star()),
        "plus":out_json(&LoopRange::plus()),"point3":out_json(&LoopRange::point(3))}));
    let m: u32 = a.sz(7, 9) as u32;
    let mut ranges: Vec<R> = vec![];
    for lo in 0..=m {
        for hi in lo..=m {
            ranges.push((lo, Some(hi)));
        }
        ranges.push((lo, None));
    }
    let ks: Vec<u32> = (0..=m).collect();
    for &r in &ranges {
        unary(&mut out, r, &ks, true);
        for &s in &ranges {
            pair(&mut out, r, s, true);
        }
    }
    // the boundary of the gap criterion: s starts just below / at / just above (a-1)/(b-a), rounded either way
    for lo in 1..=a.sz(40, 120) as u32 {
        for d in 1..=8u32 {
            let q = (lo - 1) / d;
            for c in [q.saturating_sub(1), q, q + 1, q + 2] {
                for s in [(c, Some(c)), (c, Some(c + 1)), (c, Some(c + 5)), (c, None)] {
                    pair(&mut out, (lo, Some(lo + d)), s, lo + d <= 12 && c + 1 <= 6);
                }
            }
        }
    }
    // extreme bounds (up to u32::MAX, which TLC's 32-bit integers cannot hold: values are logged as two 16-bit
    // halves and only compared): includes / contains / the predicates, finite ranges ending at u32::MAX against
    // infinite ones
    {
        let split = |x: u32| json!([x >> 16, x & 0xFFFF]);
        let big = |r: R| json!({"lo": split(r.0), "inf": r.1.is_none(), "hi": split(r.1.unwrap_or(0))});
        let vals = [0u32, 1, 2, 7, 0xFFFF, 0x10000, 0x7FFFFFFF, 0x80000000, u32::MAX - 1, u32::MAX];
        let mut ranges: Vec<R> = vec![];
        for (i, &lo) in vals.iter().enumerate() {
            for &hi in &vals[i..] {
                ranges.push((lo, Some(hi)));
            }
            ranges.push((lo, None));
        }
        for &r in &ranges {
            let x = mk(r);
            let contains: Vec<Value> = vals.iter().map(|&i| json!({"i": split(i), "res": x.contains(i)})).collect();
            let incl: Vec<Value> = ranges.iter().map(|&s| json!({"s": big(s), "res": x.includes(&mk(s))})).collect();
            out.emit(json!({"op":"big","r":big(r),"contains":contains,"includes":incl,
                "finite":x.is_finite(),"infinite":x.is_infinite(),"point":x.is_point(),"start":split(x.start())}));
        }
    }
    // larger parameters: judged with the closed forms that MC_LoopRanges justified
    for _ in 0..a.sz(1500, 30000) {
        let big = |rng: &mut Rng| -> R {
            let lo = match rng.below(4) { 0 => rng.range(0, 3), 1 => rng.range(0, 40), _ => rng.range(0, 30000) };
            if rng.coin(1, 3) { (lo, None) } else { (lo, Some(lo + match rng.below(3) { 0 => 0, 1 => rng.range(0, 3), _ => rng.range(0, 2000) })) }
        };
        let (r, s) = (big(&mut rng), big(&mut rng));
        pair(&mut out, r, s, false);
        unary(&mut out, r, &[0, 1, 2, rng.range(0, 30000)], false);
    }
    let n = out.finish();
    println!("{{\"family\":\"loopranges\",\"events\":{},\"small_ranges\":{}}}", n, ranges.len());
}

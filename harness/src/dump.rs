//! Artefact dumps: derivative graphs and automata, obtained by *calling* the public API
//! (char_derivative, nullable, Automaton::next, is_final) on region representatives.
use crate::charsets::endpoints;
use crate::util::*;
use aws_smt_strings::automata::Automaton;
use aws_smt_strings::character_sets::{CharSet, ClassId};
use aws_smt_strings::regular_expressions::{ReManager, RegLan, RE};
use serde_json::{json, Value};
use std::collections::{BTreeSet, HashMap};

pub fn addr(e: &RE) -> usize {
    e as *const RE as usize
}
pub fn from_addr(a: usize) -> RegLan {
    // every RE is a leaked allocation owned by a manager that is never dropped while in use
    unsafe { &*(a as *const RE) }
}

pub fn ranges_of<'a>(it: impl Iterator<Item = &'a CharSet>) -> Vec<(u32, u32)> {
    it.map(endpoints).collect()
}

pub fn add_range_reps(reps: &mut BTreeSet<u32>, rs: &[(u32, u32)]) {
    for &(lo, hi) in rs {
        reps.insert(lo);
        reps.insert(hi);
        if hi < MAX_CHAR {
            reps.insert(hi + 1);
        }
        if lo > 0 {
            reps.insert(lo - 1);
        }
    }
}

pub fn cid_json(c: ClassId) -> i64 {
    match c {
        ClassId::Interval(i) => i as i64,
        ClassId::Complement => -1,
    }
}

pub const NODE_CAP: usize = 3000;

pub struct Graph {
    pub nodes: Vec<RegLan>,
    pub n_iter: usize,
    pub capped: bool,
    pub reps: Vec<u32>,
    pub delta: Vec<Vec<usize>>, // 1-based node numbers
    pub index: HashMap<usize, usize>,
}

/// Derivative graph of e.  Nodes: iter_derivatives(e) in iteration order, then (should the
/// iterator have missed any) whatever char_derivative reaches from them.  Edges: char_derivative
/// on every representative.
pub fn dgraph(m: &mut ReManager, e: RegLan, ast_ends: &[u32], extra_reps: &[u32]) -> Graph {
    let mut nodes: Vec<RegLan> = vec![];
    let mut capped = false;
    {
        let mut addrs = vec![];
        for r in m.iter_derivatives(e) {
            addrs.push(addr(r));
            if addrs.len() >= NODE_CAP {
                capped = true;
                break;
            }
        }
        for a in addrs {
            nodes.push(from_addr(a));
        }
    }
    let n_iter = nodes.len();
    let mut index: HashMap<usize, usize> = HashMap::new();
    for (i, n) in nodes.iter().enumerate() {
        index.entry(addr(n)).or_insert(i);
    }
    let mut reps: BTreeSet<u32> = BTreeSet::new();
    reps.insert(0);
    for &x in ast_ends.iter().chain(extra_reps.iter()) {
        if x <= MAX_CHAR {
            reps.insert(x);
        }
    }
    // close nodes and reps together
    let mut done_nodes = 0;
    loop {
        let before = reps.len();
        for n in &nodes[done_nodes..] {
            add_range_reps(&mut reps, &ranges_of(n.char_ranges()));
        }
        let grew = reps.len() > before;
        let start = if grew { 0 } else { done_nodes };
        done_nodes = nodes.len();
        let mut i = start;
        while i < nodes.len() && nodes.len() < 2 * NODE_CAP {
            let n = nodes[i];
            for &c in reps.iter() {
                let d = m.char_derivative(n, c);
                if !index.contains_key(&addr(d)) {
                    index.insert(addr(d), nodes.len());
                    nodes.push(d);
                }
            }
            i += 1;
        }
        if nodes.len() == done_nodes && !grew {
            break;
        }
        if nodes.len() >= 2 * NODE_CAP {
            capped = true;
            break;
        }
    }
    let reps: Vec<u32> = reps.into_iter().collect();
    let mut delta = vec![];
    for n in nodes.clone() {
        let row: Vec<usize> = reps
            .iter()
            .map(|&c| {
                let d = m.char_derivative(n, c);
                match index.get(&addr(d)) {
                    Some(i) => i + 1,
                    None => 0,
                }
            })
            .collect();
        delta.push(row);
    }
    Graph { nodes, n_iter, capped, reps, delta, index }
}

impl Graph {
    pub fn node_of(&self, e: RegLan) -> usize {
        match self.index.get(&addr(e)) {
            Some(i) => i + 1,
            None => 0,
        }
    }
    pub fn finals(&self) -> Vec<bool> {
        self.nodes.iter().map(|n| n.nullable).collect()
    }
    pub fn json_fields(&self, v: &mut serde_json::Map<String, Value>) {
        v.insert("reps".into(), json!(self.reps));
        v.insert("final".into(), json!(self.finals()));
        v.insert("delta".into(), json!(self.delta));
        v.insert("niter".into(), json!(self.n_iter));
        v.insert("capped".into(), json!(self.capped));
    }
}

/// Dump of an automaton: per state the declared ranges, whether a default successor exists,
/// finality; delta[s][j] = id of next(state s, reps[j]) + 1, or 0 if next panicked.
#[derive(Clone)]
pub struct AutDump {
    pub n: usize,
    pub init: usize,
    pub reps: Vec<u32>,
    pub delta: Vec<Vec<usize>>,
    pub finals: Vec<bool>,
    pub states: Vec<Value>,
    pub ids_ok: bool,
}

pub fn dump_automaton(a: &Automaton, ast_ends: &[u32], extra_reps: &[u32]) -> AutDump {
    let mut reps: BTreeSet<u32> = BTreeSet::new();
    reps.insert(0);
    reps.insert(MAX_CHAR);
    for &x in ast_ends.iter().chain(extra_reps.iter()) {
        if x <= MAX_CHAR {
            reps.insert(x);
        }
    }
    let sts: Vec<_> = a.states().collect();
    let mut states = vec![];
    let mut ids_ok = true;
    for (i, s) in sts.iter().enumerate() {
        if s.id() != i {
            ids_ok = false;
        }
        let rs = ranges_of(s.char_ranges());
        add_range_reps(&mut reps, &rs);
        let rj: Vec<Value> = rs.iter().map(|&(x, y)| json!([x, y])).collect();
        let classes: Vec<i64> = s.char_classes().map(cid_json).collect();
        states.push(json!({"ranges": rj, "default": s.has_default_successor(),
            "nsucc": s.num_successors(), "classes": classes,
            "defsucc": match s.default_successor() { Some(x) => x as i64 + 1, None => 0 }}));
    }
    let reps: Vec<u32> = reps.into_iter().collect();
    let n = sts.len();
    let mut delta = vec![];
    for s in sts.iter() {
        let row: Vec<usize> = reps
            .iter()
            .map(|&c| match guarded(|| a.next(s, c).id()) {
                Ok(t) if t < n => t + 1,
                _ => 0,
            })
            .collect();
        delta.push(row);
    }
    let finals = sts.iter().map(|s| s.is_final()).collect();
    AutDump { n, init: a.initial_state().id() + 1, reps, delta, finals, states, ids_ok }
}

impl AutDump {
    pub fn json_fields(&self, v: &mut serde_json::Map<String, Value>) {
        v.insert("reps".into(), json!(self.reps));
        v.insert("final".into(), json!(self.finals));
        v.insert("delta".into(), json!(self.delta));
        v.insert("init".into(), json!(self.init));
        v.insert("states".into(), json!(self.states));
        v.insert("ids_ok".into(), json!(self.ids_ok));
    }
    pub fn json(&self) -> Value {
        let mut m = serde_json::Map::new();
        self.json_fields(&mut m);
        Value::Object(m)
    }
}

/// Scan next(s, c) for ALL characters and run-length encode: the table TLC then sees is the
/// true successor function, not its restriction to representatives (thorough tier).
pub fn full_scan_reps(a: &Automaton) -> Vec<u32> {
    let mut reps: BTreeSet<u32> = BTreeSet::new();
    reps.insert(0);
    for s in a.states() {
        let mut prev: i64 = -2;
        for c in 0..=MAX_CHAR {
            let t = match guarded(|| a.next(s, c).id()) {
                Ok(t) => t as i64,
                Err(_) => -1,
            };
            if t != prev {
                reps.insert(c);
                prev = t;
            }
        }
    }
    reps.into_iter().collect()
}

----------------------------- MODULE LoopRanges -----------------------------
(***************************************************************************)
(* Loop ranges (loop_ranges.rs) read as sets of naturals.                  *)
(* A range is <<lo, hi>> with hi = -1 for "no upper bound".  Sets are      *)
(* represented by their intersection with a window 0..W plus an            *)
(* "unbounded" flag; the window is derived from the arguments of the call, *)
(* never from the result the implementation returned (DESIGN 5 C15).       *)
(* Closed forms (what correct code computes) are given next to the set     *)
(* definitions; MC_LoopRanges proves them equal on the small scope, and    *)
(* they are used to judge calls whose parameters are too large to          *)
(* enumerate.                                                              *)
(***************************************************************************)
EXTENDS Integers, FiniteSets

Unb(r)        == r[2] < 0
WellFormed(r) == r[1] >= 0 /\ (Unb(r) \/ r[1] <= r[2])
In(r, n)      == r[1] <= n /\ (Unb(r) \/ n <= r[2])
Den(r, W)     == {n \in 0..W : In(r, n)}
MaxPar(r)     == IF Unb(r) THEN r[1] ELSE r[2]          \* largest finite parameter
Max2(a, b)    == IF a >= b THEN a ELSE b

SumSet(A, B, W) == {x + y : x \in A, y \in B} \cap (0..W)
RECURSIVE KFoldSet(_, _, _)
KFoldSet(A, k, W) == IF k = 0 THEN {0} ELSE SumSet(KFoldSet(A, k - 1, W), A, W)   \* k-fold sums, within 0..W
HasPositive(r) == Unb(r) \/ r[2] > 0

(* ---- obligations on results returned by the implementation ---- *)
\* a result range denotes exactly the set S (window W, unbounded flag u); W exceeds every finite bound of S
Denotes(res, S, u, W) == /\ WellFormed(res)
                         /\ Unb(res) = u
                         /\ (~u => res[2] <= W)
                         /\ Den(res, W) = S

AddW(r, s)    == MaxPar(r) + MaxPar(s) + 1
ObAdd(r, s, res) == LET W == AddW(r, s) IN
                    Denotes(res, SumSet(Den(r, W), Den(s, W), W), Unb(r) \/ Unb(s), W)
ScaleW(r, k)  == MaxPar(r) * k + 1
ObScale(r, k, res) == LET W == ScaleW(r, k) IN
                      Denotes(res, KFoldSet(Den(r, W), k, W), Unb(r) /\ k > 0, W)
ObShift(r, res) == LET W == MaxPar(r) + 1 IN
                   Denotes(res, {Max2(x - 1, 0) : x \in Den(r, W + 1)} \cap (0..W), Unb(r), W)
ObContains(r, i, b) == b = In(r, i)
\* inclusion of s in r
ObIncludes(r, s, b) == LET W == Max2(MaxPar(r), MaxPar(s)) + 1 IN
                       b = (Den(s, W) \subseteq Den(r, W) /\ (Unb(s) => Unb(r)))
\* mul contains every product x*y
ObMul(r, s, res) == LET W == Max2(MaxPar(r), MaxPar(s)) + 1 IN
                    /\ WellFormed(res)
                    /\ \A x \in Den(r, W), y \in Den(s, W) : In(res, x * y)
                    /\ ((Unb(r) /\ HasPositive(s)) \/ (Unb(s) /\ HasPositive(r))) => Unb(res)

(* right_mul_is_exact(r, s): the union over y in s of the y-fold sums of r equals r.mul(s) *)
ExactW(r, s)  == LET P == Max2(MaxPar(r), MaxPar(s)) IN P * (P + 1) + 1
UnionOfFolds(r, s, W) == UNION {KFoldSet(Den(r, W), y, W) : y \in Den(s, W)}
UnionUnb(r, s) == (Unb(r) /\ HasPositive(s)) \/ (Unb(s) /\ HasPositive(r))
IsExact(r, s, m, W) == /\ UnionOfFolds(r, s, W) = Den(m, W)
                       /\ UnionUnb(r, s) = Unb(m)
ObExact(r, s, m, b) == b = IsExact(r, s, m, ExactW(r, s))

-----------------------------------------------------------------------------
(* Closed forms *)
AddCF(r, s)   == <<r[1] + s[1], IF Unb(r) \/ Unb(s) THEN -1 ELSE r[2] + s[2]>>
ScaleCF(r, k) == IF k = 0 THEN <<0, 0>> ELSE <<r[1] * k, IF Unb(r) THEN -1 ELSE r[2] * k>>
ShiftCF(r)    == <<Max2(r[1] - 1, 0), IF Unb(r) THEN -1 ELSE Max2(r[2] - 1, 0)>>
IncludesCF(r, s) == r[1] <= s[1] /\ (Unb(r) \/ (~Unb(s) /\ s[2] <= r[2]))
IsZero(r)     == r = <<0, 0>>
MulCF(r, s)   == IF IsZero(r) \/ IsZero(s) THEN <<0, 0>>
                 ELSE <<r[1] * s[1], IF Unb(r) \/ Unb(s) THEN -1 ELSE r[2] * s[2]>>
\* the gap criterion: consecutive intervals [y*a, y*b], [(y+1)*a, (y+1)*b] leave no gap from y = c on
ExactCF(r, s) == \/ (~Unb(s) /\ s[1] = s[2])
                 \/ IF Unb(r) THEN s[1] > 0 \/ r[1] <= 1
                    ELSE s[1] * (r[2] - r[1]) >= Max2(r[1] - 1, 0)
=============================================================================

CONSTANTS MaxStates = 3  NLetters = 2
INIT Init
NEXT Next
INVARIANT DefinitionsAgree
CHECK_DEADLOCK FALSE

CONSTANT MaxP = 4
INIT Init
NEXT Next
INVARIANT ClosedForms
INVARIANT WindowStable
INVARIANT Discriminates
CHECK_DEADLOCK FALSE

CONSTANTS MaxStates = 3  NLetters = 2
INIT Init
NEXT Next
INVARIANT PartitionOk
INVARIANT NeverSeparatesEquivalent
INVARIANT EndsInNerode
INVARIANT ActiveAreBlocks
CHECK_DEADLOCK FALSE

------------------------------ MODULE MC_Chars ------------------------------
(* U1 for Chars: on the complete small scope 0..MaxChar                     *)
(*  (1) the closed forms satisfy the set-theoretic obligations taken over   *)
(*      the whole alphabet;                                                 *)
(*  (2) region lemma: for EVERY candidate result r, the obligation taken    *)
(*      over Reps(intervals of the call) has the same truth value as the    *)
(*      obligation over the whole alphabet -- so validating real-alphabet   *)
(*      traces over Reps neither hides nor invents a violation.             *)
EXTENDS Chars, TLC

VARIABLES c, d, e, x, ph
vars == <<c, d, e, x, ph>>

Init == c \in Intervals /\ d \in Intervals /\ e \in Intervals /\ x \in 0..MaxChar + 1 /\ ph = 0
Next == ph = 0 /\ ph' = 1 /\ UNCHANGED <<c, d, e, x>>   \* work happens in workers, not in Init

Cand == Intervals \cup {None}
BoolT == {TRUE, FALSE}
D2(r) == Reps({c, d} \cup (IF r = None \/ ~IsInterval(r) THEN {} ELSE {r}))
D3(r) == Reps({c, d, e} \cup (IF r = None THEN {} ELSE {r}))
Dx    == Reps({c, Pt(x)} ) \cup ({x} \cap Alphabet)

ClosedFormsOk == ph = 0 \/
  /\ ObInter(c, d, InterCF(c, d), Alphabet)
  /\ ObUnion(c, d, UnionCF(c, d), Alphabet)
  /\ ObCmp(c, d, CmpCF(c, d), Alphabet)
  /\ ObInterList(<<c, d, e>>, IF InterCF(c, d) = None THEN None ELSE InterCF(InterCF(c, d), e), Alphabet)
  /\ ObSize(c, Cardinality(SetOf(c)))
  /\ ObCovers(c, d, c[1] <= d[1] /\ d[2] <= c[2], Alphabet)
  /\ ObBefore(c, x, c[2] < x, Alphabet)
  /\ ObAfter(c, x, x < c[1], Alphabet)
  /\ ObSingleton(c, c[1] = c[2], Alphabet)
  /\ ObAlphabet(c, c = <<0, MaxChar>>, Alphabet)

RegionLemma == ph = 0 \/
  /\ \A r \in Cand : /\ ObInter(c, d, r, D2(r)) = ObInter(c, d, r, Alphabet)
                     /\ ObUnion(c, d, r, D2(r)) = ObUnion(c, d, r, Alphabet)
                     /\ ObInterList(<<c, d, e>>, r, D3(r)) = ObInterList(<<c, d, e>>, r, Alphabet)
  /\ \A r \in {"eq", "lt", "gt", "none"} : ObCmp(c, d, r, D2(None)) = ObCmp(c, d, r, Alphabet)
  /\ \A r \in BoolT : /\ ObCovers(c, d, r, D2(None)) = ObCovers(c, d, r, Alphabet)
                      /\ ObBefore(c, x, r, Dx) = ObBefore(c, x, r, Alphabet)
                      /\ ObAfter(c, x, r, Dx) = ObAfter(c, x, r, Alphabet)
                      /\ ObSingleton(c, r, Reps({c, Pt(c[1])})) = ObSingleton(c, r, Alphabet)
                      /\ ObAlphabet(c, r, Reps({c})) = ObAlphabet(c, r, Alphabet)
=============================================================================

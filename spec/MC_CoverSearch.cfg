CONSTANT MaxChar = 5
INIT InitP
NEXT NextP
INVARIANT ClassOfCharCorrect
INVARIANT CoverCorrect
INVARIANT CoverRegionLemma
CHECK_DEADLOCK FALSE

------------------------------ MODULE MC_Terms ------------------------------
(* U2 for Regex: TLC enumerates construction programs (API-level ASTs, the   *)
(* constructors named as a caller names them) of depth <= 2 over a small     *)
(* atom pool and emits one JSON line per program; the harness builds each    *)
(* through ReManager / the re_* wrappers and dumps what the crate made of    *)
(* it, and Trace_Product / Trace_Regex judge the dumps against the SAME      *)
(* ASTs.  Programs are decoded from an index; the environment variables      *)
(* VH_STRIDE / VH_OFFSET select a residue class (quick tier: a seeded        *)
(* sample; thorough tier: stride 1 = the complete depth-2 space).            *)
EXTENDS Integers, Sequences, TLC, Json, IOUtils

A == 97  B == 98  C == 99
Atoms == << [k |-> "none"], [k |-> "eps"], [k |-> "chr", c |-> A], [k |-> "chr", c |-> B],
            [k |-> "rng", lo |-> A, hi |-> B], [k |-> "rng", lo |-> B, hi |-> C], [k |-> "allchar"], [k |-> "all"],
            [k |-> "str", w |-> <<A, B>>] >>
NAt == Len(Atoms)

LoopRanges == << <<0, 0>>, <<0, 1>>, <<1, 1>>, <<0, 2>>, <<1, 2>>, <<2, 2>>, <<2, 3>>, <<0, -1>>, <<1, -1>>, <<2, -1>> >>
NUn == 4 + 3 + Len(LoopRanges) + 2
UnaryAt(a, k) ==
  CASE k = 0 -> [k |-> "not", a |-> a]
    [] k = 1 -> [k |-> "star", a |-> a]
    [] k = 2 -> [k |-> "plus", a |-> a]
    [] k = 3 -> [k |-> "opt", a |-> a]
    [] k \in 4..6 -> [k |-> "pow", a |-> a, n |-> k - 4]
    [] k \in 7..(6 + Len(LoopRanges)) -> [k |-> "loop", a |-> a, lo |-> LoopRanges[k - 6][1], hi |-> LoopRanges[k - 6][2]]
    [] k = 7 + Len(LoopRanges) -> [k |-> "smtloop", a |-> a, lo |-> 1, hi |-> 3]
    [] OTHER -> [k |-> "smtloop", a |-> a, lo |-> 2, hi |-> 1]
NBin == 4
BinAt(op, a, b) ==
  CASE op = 0 -> [k |-> "cat", xs |-> <<a, b>>]
    [] op = 1 -> [k |-> "alt", xs |-> <<a, b>>]
    [] op = 2 -> [k |-> "and", xs |-> <<a, b>>]
    [] OTHER  -> [k |-> "diff", a |-> a, xs |-> <<b>>]

(* depth <= 1 *)
N1 == NAt + NAt * NUn + NBin * NAt * NAt
D1At(n) == IF n < NAt THEN Atoms[n + 1]
           ELSE IF n < NAt + NAt * NUn THEN LET m == n - NAt IN UnaryAt(Atoms[(m \div NUn) + 1], m % NUn)
           ELSE LET m == n - NAt - NAt * NUn
                    op == m \div (NAt * NAt) r == m % (NAt * NAt)
                IN BinAt(op, Atoms[(r \div NAt) + 1], Atoms[(r % NAt) + 1])
(* depth 2: unary over depth-1, binary over (depth-1 x depth-1) *)
N2u == N1 * NUn
N2b == NBin * N1 * N1
Total == N1 + N2u + N2b
ProgAt(n) == IF n < N1 THEN D1At(n)
             ELSE IF n < N1 + N2u THEN LET m == n - N1 IN UnaryAt(D1At(m \div NUn), m % NUn)
             ELSE LET m == n - N1 - N2u
                      op == m \div (N1 * N1) r == m % (N1 * N1)
                  IN BinAt(op, D1At(r \div N1), D1At(r % N1))

Stride == IF "VH_STRIDE" \in DOMAIN IOEnv THEN atoi(IOEnv.VH_STRIDE) ELSE 1
Offset == IF "VH_OFFSET" \in DOMAIN IOEnv THEN atoi(IOEnv.VH_OFFSET) ELSE 0

VARIABLE n
Init == n = Offset % Stride
Next == n < Total /\ PrintT(ToJson(ProgAt(n))) /\ n' = n + Stride
=============================================================================

------------------------------- MODULE Regex -------------------------------
(***************************************************************************)
(* Regular expressions over the alphabet 0..MaxChar as SMT-LIB 2.6 defines *)
(* them, independent of the crate's term representation.                   *)
(*                                                                         *)
(* A term is the *construction* of an expression: a record tagged with the *)
(* name of the constructor the caller used (ReManager method or re_*       *)
(* wrapper), as logged by the harness.  Core(t) rewrites the derived       *)
(* constructors into the kernel, following the SMT-LIB definitions.        *)
(* Matches(t,w) is the denotational semantics of the kernel (trusted, kept *)
(* short).  RInit/RStep/RFinal is an executable *residual automaton* of a  *)
(* kernel term: finite by construction, it is what TLC explores in product *)
(* with artefacts dumped from the real crate.  MC_Regex checks that the    *)
(* residual automaton agrees with Matches on every small term and word.    *)
(***************************************************************************)
EXTENDS Alphabet, Integers, Sequences, FiniteSets


-----------------------------------------------------------------------------
(* Kernel constructors *)
TNone         == [k |-> "none"]
TEps          == [k |-> "eps"]
TRng(lo, hi)  == [k |-> "rng", lo |-> lo, hi |-> hi]
TStr(w)       == [k |-> "str", w |-> w]
TCat(a, b)    == [k |-> "cat2", a |-> a, b |-> b]
TAlt(xs)      == [k |-> "alt", xs |-> xs]
TAnd(xs)      == [k |-> "and", xs |-> xs]
TNot(a)       == [k |-> "not", a |-> a]
TLoop(a, lo, hi) == [k |-> "loop", a |-> a, lo |-> lo, hi |-> hi]    \* hi < 0 : no upper bound
TQuot(c, a)   == [k |-> "quot", c |-> c, a |-> a]                    \* { w : c.w in L(a) }
TAll          == TLoop(TRng(0, MaxChar), 0, -1)

(* SMT-LIB definitions of the derived constructors.                        *)
(*   re.all = (re.* re.allchar)        re.+ r = r (re.* r)  [= r^[1,inf)]  *)
(*   re.opt r = (re.union "" r) [= r^[0,1]]     (re.^ n) r = r^[n,n]       *)
(*   (re.loop i j) r = r^[i,j] if i <= j, none otherwise                    *)
(*   re.diff r s = (re.inter r (re.comp s)), n-ary by left association      *)
(*   re.range s1 s2 = [c1..c2] if |s1| = |s2| = 1 and c1 <= c2, else none   *)
(*   re.++ / re.union / re.inter of an empty list: eps / none / all         *)
RECURSIVE Core(_), CoreCat(_, _)
CoreCat(xs, i) == IF i > Len(xs) THEN TEps
                  ELSE IF i = Len(xs) THEN Core(xs[i])
                  ELSE TCat(Core(xs[i]), CoreCat(xs, i + 1))
Core(t) ==
  CASE t.k = "none"      -> TNone
    [] t.k = "eps"       -> TEps
    [] t.k = "all"       -> TAll
    [] t.k = "allchar"   -> TRng(0, MaxChar)
    [] t.k = "sigmaplus" -> TLoop(TRng(0, MaxChar), 1, -1)
    [] t.k = "rng"       -> TRng(t.lo, t.hi)
    [] t.k = "chr"       -> TRng(t.c, t.c)
    [] t.k = "str"       -> TStr(t.w)
    [] t.k = "smtrange"  -> IF Len(t.s1) = 1 /\ Len(t.s2) = 1 /\ t.s1[1] <= t.s2[1]
                            THEN TRng(t.s1[1], t.s2[1]) ELSE TNone
    [] t.k = "cat"       -> CoreCat(t.xs, 1)
    [] t.k = "cat2"      -> TCat(Core(t.a), Core(t.b))        \* kernel terms are their own core
    [] t.k = "alt"       -> IF Len(t.xs) = 0 THEN TNone ELSE TAlt([i \in 1..Len(t.xs) |-> Core(t.xs[i])])
    [] t.k = "and"       -> IF Len(t.xs) = 0 THEN TAll ELSE TAnd([i \in 1..Len(t.xs) |-> Core(t.xs[i])])
    [] t.k = "not"       -> TNot(Core(t.a))
    [] t.k = "diff"      -> TAnd(<<Core(t.a)>> \o [i \in 1..Len(t.xs) |-> TNot(Core(t.xs[i]))])
    [] t.k = "star"      -> TLoop(Core(t.a), 0, -1)
    [] t.k = "plus"      -> TLoop(Core(t.a), 1, -1)
    [] t.k = "opt"       -> TLoop(Core(t.a), 0, 1)
    [] t.k = "pow"       -> TLoop(Core(t.a), t.n, t.n)
    [] t.k = "smtloop"   -> IF t.lo <= t.hi THEN TLoop(Core(t.a), t.lo, t.hi) ELSE TNone
    [] t.k = "loop"      -> TLoop(Core(t.a), t.lo, t.hi)
    [] t.k = "quot"      -> TQuot(t.c, Core(t.a))

-----------------------------------------------------------------------------
(* Denotational semantics of kernel terms: w is a sequence of characters.  *)
RECURSIVE Matches(_, _), Pow(_, _, _)
Matches(t, w) ==
  CASE t.k = "none" -> FALSE
    [] t.k = "eps"  -> w = <<>>
    [] t.k = "rng"  -> Len(w) = 1 /\ t.lo <= w[1] /\ w[1] <= t.hi
    [] t.k = "str"  -> w = t.w
    [] t.k = "cat2" -> \E i \in 0..Len(w) : Matches(t.a, SubSeq(w, 1, i)) /\ Matches(t.b, SubSeq(w, i + 1, Len(w)))
    [] t.k = "alt"  -> \E i \in 1..Len(t.xs) : Matches(t.xs[i], w)
    [] t.k = "and"  -> \A i \in 1..Len(t.xs) : Matches(t.xs[i], w)
    [] t.k = "not"  -> ~Matches(t.a, w)
    [] t.k = "loop" -> \* union of the n-th powers, n in [lo,hi]; powers above lo+|w|+1 add nothing new
                       \E n \in t.lo..(IF t.hi < 0 THEN t.lo + Len(w) + 1 ELSE t.hi) : Pow(t.a, n, w)
    [] t.k = "quot" -> Matches(t.a, <<t.c>> \o w)
Pow(a, n, w) == IF n = 0 THEN w = <<>>
                ELSE \E i \in 0..Len(w) : Matches(a, SubSeq(w, 1, i)) /\ Pow(a, n - 1, SubSeq(w, i + 1, Len(w)))

-----------------------------------------------------------------------------
(* Residual automaton of a kernel term.                                    *)
(*  none: 0          eps: 0 (final), 1 dead      rng: 0, 1 (final), 2 dead *)
(*  str: number of characters matched, -1 dead                             *)
(*  cat: <<state of a, set of states of b>> (threads of b started at each  *)
(*       point where the consumed prefix splits into a-part . b-part)      *)
(*  alt/and: tuple of component states;  not: state of the operand         *)
(*  loop: <<B, P>>, B = numbers m of completed NON-EMPTY pieces such that   *)
(*        the consumed prefix splits into m such pieces, P = pairs <<m, s>> *)
(*        "m completed pieces, then a non-empty partial piece in state s". *)
(*        Empty pieces only matter as padding: w is in the union of the    *)
(*        k-th powers, k in [lo,hi], iff it splits into m non-empty pieces  *)
(*        with m <= hi and (lo <= m or the body is nullable).  With no      *)
(*        upper bound all m >= lo are equivalent and are capped at lo.      *)
(*  Dead states are canonicalised (Norm) so that the residual automaton   *)
(*  stays small: Dead(t,s) is a syntactic sufficient condition for "no      *)
(*  final state is reachable from s"; Canon(t) is one fixed dead state.     *)
RECURSIVE RInit(_), RStep(_, _, _), RFinal(_, _), Dead(_, _), Canon(_)
Canon(t) ==
  CASE t.k = "none" -> 0
    [] t.k = "eps"  -> 1
    [] t.k = "rng"  -> 2
    [] t.k = "str"  -> -1
    [] t.k = "cat2" -> <<Canon(t.a), {}>>
    [] t.k \in {"alt", "and"} -> [i \in 1..Len(t.xs) |-> Canon(t.xs[i])]
    [] t.k \in {"not", "quot"} -> Canon(t.a)
    [] t.k = "loop" -> <<{}, {}>>
Dead(t, s) ==
  CASE t.k = "none" -> TRUE
    [] t.k = "eps"  -> s = 1
    [] t.k = "rng"  -> s = 2
    [] t.k = "str"  -> s = -1
    [] t.k = "cat2" -> s[2] = {} /\ Dead(t.a, s[1])
    [] t.k = "alt"  -> \A i \in 1..Len(t.xs) : Dead(t.xs[i], s[i])
    [] t.k = "and"  -> \E i \in 1..Len(t.xs) : Dead(t.xs[i], s[i])
    [] t.k = "not"  -> FALSE
    [] t.k = "loop" -> s[1] = {} /\ s[2] = {}
    [] t.k = "quot" -> Dead(t.a, s)
Norm(t, s) == IF Dead(t, s) THEN Canon(t) ELSE s
Live(t, S) == {x \in S : ~Dead(t, x)}

RInit(t) ==
  CASE t.k \in {"none", "eps", "rng", "str"} -> 0
    [] t.k = "cat2" -> LET ia == RInit(t.a) IN Norm(t, <<ia, IF RFinal(t.a, ia) THEN Live(t.b, {RInit(t.b)}) ELSE {}>>)
    [] t.k \in {"alt", "and"} -> Norm(t, [i \in 1..Len(t.xs) |-> RInit(t.xs[i])])
    [] t.k = "not"  -> RInit(t.a)
    [] t.k = "loop" -> <<{0}, {}>>
    [] t.k = "quot" -> RStep(t.a, RInit(t.a), t.c)
LoopCap(t, m) == IF t.hi < 0 /\ m > t.lo THEN t.lo ELSE m
RStep(t, s, c) ==
  CASE t.k = "none" -> 0
    [] t.k = "eps"  -> 1
    [] t.k = "rng"  -> IF s = 0 /\ t.lo <= c /\ c <= t.hi THEN 1 ELSE 2
    [] t.k = "str"  -> IF s >= 0 /\ s < Len(t.w) /\ t.w[s + 1] = c THEN s + 1 ELSE -1
    [] t.k = "cat2" -> LET sa == RStep(t.a, s[1], c)
                           B  == {RStep(t.b, x, c) : x \in s[2]}
                       IN Norm(t, <<sa, Live(t.b, B \cup (IF RFinal(t.a, sa) THEN {RInit(t.b)} ELSE {}))>>)
    [] t.k \in {"alt", "and"} -> Norm(t, [i \in 1..Len(t.xs) |-> RStep(t.xs[i], s[i], c)])
    [] t.k = "not"  -> RStep(t.a, s, c)
    [] t.k = "loop" -> LET starters == {m \in s[1] : t.hi < 0 \/ m < t.hi}
                           P0 == {<<p[1], RStep(t.a, p[2], c)>> : p \in s[2]}
                                 \cup {<<m, RStep(t.a, RInit(t.a), c)>> : m \in starters}
                           P  == {p \in P0 : ~Dead(t.a, p[2])}
                           Bd == {LoopCap(t, p[1] + 1) : p \in {x \in P : RFinal(t.a, x[2])}}
                       IN <<Bd, P>>
    [] t.k = "quot" -> RStep(t.a, s, c)
RFinal(t, s) ==
  CASE t.k = "none" -> FALSE
    [] t.k = "eps"  -> s = 0
    [] t.k = "rng"  -> s = 1
    [] t.k = "str"  -> s = Len(t.w)
    [] t.k = "cat2" -> \E x \in s[2] : RFinal(t.b, x)
    [] t.k = "alt"  -> \E i \in 1..Len(t.xs) : RFinal(t.xs[i], s[i])
    [] t.k = "and"  -> \A i \in 1..Len(t.xs) : RFinal(t.xs[i], s[i])
    [] t.k = "not"  -> ~RFinal(t.a, s)
    [] t.k = "loop" -> LET na == RFinal(t.a, RInit(t.a))
                       IN \E m \in s[1] : (t.hi < 0 \/ m <= t.hi) /\ (na \/ t.lo <= m)
    [] t.k = "quot" -> RFinal(t.a, s)

RECURSIVE RRun(_, _, _)
RRun(t, s, w) == IF w = <<>> THEN s ELSE RRun(t, RStep(t, s, Head(w)), Tail(w))
Accepts(t, w) == RFinal(t, RRun(t, RInit(t), w))          \* = Matches(t, w), MC_Regex
Nullable(t)   == RFinal(t, RInit(t))

-----------------------------------------------------------------------------
(* Interval end points of a kernel term: every predicate RStep evaluates   *)
(* on the character c is constant between two consecutive elements of      *)
(* Ends(t) \cup {0}, so exploring one character per region is exploring    *)
(* all characters.                                                         *)
RECURSIVE Ends(_)
Ends(t) ==
  CASE t.k \in {"none", "eps"} -> {}
    [] t.k = "rng"  -> {t.lo, t.hi + 1}
    [] t.k = "str"  -> UNION {{t.w[i], t.w[i] + 1} : i \in 1..Len(t.w)}
    [] t.k = "cat2" -> Ends(t.a) \cup Ends(t.b)
    [] t.k \in {"alt", "and"} -> UNION {Ends(t.xs[i]) : i \in 1..Len(t.xs)}
    [] t.k \in {"not", "loop", "quot"} -> Ends(t.a)
TermReps(t) == ({0} \cup Ends(t)) \cap (0..MaxChar)

(* Exact reachability in the residual automaton over a set R of characters *)
(* that contains one character of every region.                            *)
RECURSIVE Closure(_, _, _, _)
Closure(t, R, frontier, seen) ==
  IF frontier = {} THEN seen
  ELSE LET nxt == {RStep(t, s, c) : s \in frontier, c \in R} \ seen
       IN Closure(t, R, nxt, seen \cup nxt)
ReachFrom(t, R, s0)   == Closure(t, R, {s0}, {s0})
NonEmptyFrom(t, R, s0) == \E s \in ReachFrom(t, R, s0) : RFinal(t, s)
NonEmpty(t)           == NonEmptyFrom(t, TermReps(t), RInit(t))
SubLang(a, b)         == ~NonEmpty(TAnd(<<a, TNot(b)>>))
Equiv(a, b)           == SubLang(a, b) /\ SubLang(b, a)
StartsWith(t, c)      == NonEmpty(TQuot(c, t))            \* some member of L(t) begins with c

-----------------------------------------------------------------------------
(* str.replace_re / str.replace_re_all (SMT-LIB 2.6): leftmost, then shortest match.      *)
(* FirstEnd(t, s, i, minLen): the least j >= i + minLen such that s[i..j) is in L(t), or -1 *)
RECURSIVE ScanEnd(_, _, _, _, _)
ScanEnd(t, s, q, j, minJ) ==             \* q = residual state after reading s[i..j)
  IF j >= minJ /\ RFinal(t, q) THEN j
  ELSE IF j >= Len(s) THEN -1
  ELSE ScanEnd(t, s, RStep(t, q, s[j + 1]), j + 1, minJ)
FirstEnd(t, s, i, minLen) == ScanEnd(t, s, RInit(t), i, i + minLen)
\* leftmost position >= from with a match of length >= minLen, as <<i, j>>, or <<-1, -1>>
RECURSIVE LeftmostFrom(_, _, _, _)
LeftmostFrom(t, s, from, minLen) ==
  IF from > Len(s) THEN <<-1, -1>>
  ELSE LET j == FirstEnd(t, s, from, minLen) IN
       IF j >= 0 THEN <<from, j>> ELSE LeftmostFrom(t, s, from + 1, minLen)
ReplaceRe(s, t, u) ==
  LET m == LeftmostFrom(t, s, 0, 0) IN
  IF m[1] < 0 THEN s ELSE SubSeq(s, 1, m[1]) \o u \o SubSeq(s, m[2] + 1, Len(s))
RECURSIVE ReplaceReAllFrom(_, _, _, _)
ReplaceReAllFrom(s, t, u, from) ==
  LET m == LeftmostFrom(t, s, from, 1) IN                  \* non-empty matches only
  IF m[1] < 0 THEN SubSeq(s, from + 1, Len(s))
  ELSE SubSeq(s, from + 1, m[1]) \o u \o ReplaceReAllFrom(s, t, u, m[2])
ReplaceReAll(s, t, u) == ReplaceReAllFrom(s, t, u, 0)
=============================================================================

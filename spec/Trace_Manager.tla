--------------------------- MODULE Trace_Manager ---------------------------
(* Validates histories recorded on one manager (C07): each record is the    *)
(* complete event list of one history (TLC-generated prefix . target .      *)
(* re-issue, or a long random one).                                         *)
EXTENDS TraceBase, Manager

Bad(e) ==
  CASE e.op = "history" ->
         LET h == e.events IN
         Failed({<<"C07:no_panic", NoPanic(h)>>,
                 <<"C07:same_construction_same_term", I1(h)>>,
                 <<"C07:equal_iff_same_object", I2(h)>>,
                 <<"C07:complement_involution_no_fixed_point", I3(h)>>,
                 <<"C07:language_independent_of_history", NoPanic(h) => I4(h)>>})
    [] e.op = "scale_history" ->
         \* a term with more than 2^16 derivative classes: only the membership answers are logged
         Failed({<<"C07:no_panic", NoPanic(e.events)>>,
                 <<"C07:language_independent_of_history", NoPanic(e.events) => I4s(e.events, e.shared)>>})
    [] OTHER -> {"unknown_event"}

Init == TInit
Next == TNext(Bad)
=============================================================================

CONSTANTS MaxChar = 2  MaxAdd0 = 3
INIT Init
NEXT Next
INVARIANT TypeOk
INVARIANT AcceptedIsTotal
INVARIANT VerdictRegionLemma
INVARIANT BuildAlgorithmCorrect
CHECK_DEADLOCK FALSE

------------------------------ MODULE Builder ------------------------------
(***************************************************************************)
(* AutomatonBuilder (automata.rs) as a state machine over caller-chosen    *)
(* state names.  State: for every state mentioned so far, the LIST of      *)
(* transitions given (label, target) in call order, the declared default   *)
(* (last call wins), the final flag; and the order of first mention (the   *)
(* crate numbers states in that order).                                    *)
(*                                                                         *)
(* Build classifies the specification:                                     *)
(*   MustReject : some state assigns two different successors to a         *)
(*                character, or leaves a character without successor and    *)
(*                declares no default;                                      *)
(*   MustAccept : in every state the labels are pairwise disjoint, and a    *)
(*                default is declared exactly when a character is uncovered *)
(*   Either     : everything else (overlapping labels with equal targets,   *)
(*                a default that nothing needs) -- the property leaves it   *)
(*                open, so does the specification.                          *)
(* SpecDelta(s, x) is the successor the caller specified: the explicit      *)
(* transition covering x, else the declared default.                        *)
(***************************************************************************)
EXTENDS Chars

NoDefault == <<>>                      \* default is <<>> or <<t>>

(* Functional form of the calls: st = [trans, dflt, fin, order]; trans/dflt/fin are functions *)
(* over the states mentioned so far, order is the sequence of states in first-mention order. *)
Mentioned(st) == {st.order[i] : i \in 1..Len(st.order)}
RECURSIVE MentionFrom(_, _, _)
MentionFrom(o, ss, k) == IF k > Len(ss) THEN o
                         ELSE MentionFrom(IF ss[k] \in {o[i] : i \in 1..Len(o)} THEN o ELSE Append(o, ss[k]), ss, k + 1)
Ext(f, ss, v) == [s \in (DOMAIN f) \cup {ss[k] : k \in 1..Len(ss)} |-> IF s \in DOMAIN f THEN f[s] ELSE v]
Touch(st, ss) == [trans |-> Ext(st.trans, ss, <<>>), dflt |-> Ext(st.dflt, ss, NoDefault),
                  fin |-> Ext(st.fin, ss, FALSE), order |-> MentionFrom(st.order, ss, 1)]

StNew(s0)        == Touch([trans |-> <<>>, dflt |-> <<>>, fin |-> <<>>, order |-> <<>>], <<s0>>)
StAdd(st, s, c, t) == LET u == Touch(st, <<s, t>>) IN [u EXCEPT !.trans[s] = Append(@, <<c, t>>)]
StDef(st, s, t)  == LET u == Touch(st, <<s, t>>) IN [u EXCEPT !.dflt[s] = <<t>>]       \* last call wins
StFin(st, s)     == LET u == Touch(st, <<s>>) IN [u EXCEPT !.fin[s] = TRUE]

(* The object as a state machine *)
VARIABLE bst
BNew(s0)      == bst' = StNew(s0)
BAdd(s, c, t) == bst' = StAdd(bst, s, c, t)
BDef(s, t)    == bst' = StDef(bst, s, t)
BFin(s)       == bst' = StFin(bst, s)

-----------------------------------------------------------------------------
(* Verdict of build() on a specification given as plain data:               *)
(*   tr = sequence of <<label, target>>, df = <<>> or <<target>>            *)
Targets(tr, x)  == {tr[k][2] : k \in {k \in 1..Len(tr) : Mem(tr[k][1], x)}}
Conflict(tr, D)  == \E x \in D : Cardinality(Targets(tr, x)) > 1
Uncovered(tr, D) == \E x \in D : Targets(tr, x) = {}
LabelsDisjoint(tr) == \A j, k \in 1..Len(tr) : j # k => (tr[j][1][2] < tr[k][1][1] \/ tr[k][1][2] < tr[j][1][1])
StateMustReject(tr, df, D) == Conflict(tr, D) \/ (Uncovered(tr, D) /\ df = NoDefault)
StateMustAccept(tr, df, D) == LabelsDisjoint(tr) /\ (Uncovered(tr, D) <=> df # NoDefault)
\* characters that matter for one state: region representatives of its labels
StateReps(tr) == Reps({tr[k][1] : k \in 1..Len(tr)})
SpecDelta(tr, df, x) == IF Targets(tr, x) # {} THEN CHOOSE t \in Targets(tr, x) : TRUE ELSE df[1]

Verdict(T, Dft, S) ==         \* T, Dft: functions on the set S of mentioned states
  IF \E s \in S : StateMustReject(T[s], Dft[s], StateReps(T[s])) THEN "MustReject"
  ELSE IF \A s \in S : StateMustAccept(T[s], Dft[s], StateReps(T[s])) THEN "MustAccept"
  ELSE "Either"
=============================================================================

------------------------------ MODULE Builder ------------------------------
(***************************************************************************)
(* AutomatonBuilder (automata.rs) as a state machine over caller-chosen    *)
(* state names.  State: for every state mentioned so far, the LIST of      *)
(* transitions given (label, target) in call order, the declared default   *)
(* (last call wins), the final flag; and the order of first mention (the   *)
(* crate numbers states in that order).                                    *)
(*                                                                         *)
(* Build classifies the specification:                                     *)
(*   MustReject : some state assigns two different successors to a         *)
(*                character, or leaves a character without successor and    *)
(*                declares no default;                                      *)
(*   MustAccept : in every state the labels are pairwise disjoint, and a    *)
(*                default is declared exactly when a character is uncovered *)
(*   Either     : everything else (overlapping labels with equal targets,   *)
(*                a default that nothing needs) -- the property leaves it   *)
(*                open, so does the specification.                          *)
(* SpecDelta(s, x) is the successor the caller specified: the explicit      *)
(* transition covering x, else the declared default.                        *)
(***************************************************************************)
EXTENDS Chars

NoDefault == <<>>                      \* default is <<>> or <<t>>

(* Functional form of the calls: st = [trans, dflt, fin, order]; trans/dflt/fin are functions *)
(* over the states mentioned so far, order is the sequence of states in first-mention order. *)
Mentioned(st) == {st.order[i] : i \in 1..Len(st.order)}
RECURSIVE MentionFrom(_, _, _)
MentionFrom(o, ss, k) == IF k > Len(ss) THEN o
                         ELSE MentionFrom(IF ss[k] \in {o[i] : i \in 1..Len(o)} THEN o ELSE Append(o, ss[k]), ss, k + 1)
Ext(f, ss, v) == [s \in (DOMAIN f) \cup {ss[k] : k \in 1..Len(ss)} |-> IF s \in DOMAIN f THEN f[s] ELSE v]
Touch(st, ss) == [trans |-> Ext(st.trans, ss, <<>>), dflt |-> Ext(st.dflt, ss, NoDefault),
                  fin |-> Ext(st.fin, ss, FALSE), order |-> MentionFrom(st.order, ss, 1)]

StNew(s0)        == Touch([trans |-> <<>>, dflt |-> <<>>, fin |-> <<>>, order |-> <<>>], <<s0>>)
StAdd(st, s, c, t) == LET u == Touch(st, <<s, t>>) IN [u EXCEPT !.trans[s] = Append(@, <<c, t>>)]
StDef(st, s, t)  == LET u == Touch(st, <<s, t>>) IN [u EXCEPT !.dflt[s] = <<t>>]       \* last call wins
StFin(st, s)     == LET u == Touch(st, <<s>>) IN [u EXCEPT !.fin[s] = TRUE]

(* The object as a state machine *)
VARIABLE bst
BNew(s0)      == bst' = StNew(s0)
BAdd(s, c, t) == bst' = StAdd(bst, s, c, t)
BDef(s, t)    == bst' = StDef(bst, s, t)
BFin(s)       == bst' = StFin(bst, s)

-----------------------------------------------------------------------------
(* Verdict of build() on a specification given as plain data:               *)
(*   tr = sequence of <<label, target>>, df = <<>> or <<target>>            *)
Targets(tr, x)  == {tr[k][2] : k \in {k \in 1..Len(tr) : Mem(tr[k][1], x)}}
Conflict(tr, D)  == \E x \in D : Cardinality(Targets(tr, x)) > 1
Uncovered(tr, D) == \E x \in D : Targets(tr, x) = {}
LabelsDisjoint(tr) == \A j, k \in 1..Len(tr) : j # k => (tr[j][1][2] < tr[k][1][1] \/ tr[k][1][2] < tr[j][1][1])
StateMustReject(tr, df, D) == Conflict(tr, D) \/ (Uncovered(tr, D) /\ df = NoDefault)
StateMustAccept(tr, df, D) == LabelsDisjoint(tr) /\ (Uncovered(tr, D) <=> df # NoDefault)
\* characters that matter for one state: region representatives of its labels
StateReps(tr) == Reps({tr[k][1] : k \in 1..Len(tr)})
SpecDelta(tr, df, x) == IF Targets(tr, x) # {} THEN CHOOSE t \in Targets(tr, x) : TRUE ELSE df[1]

Verdict(T, Dft, S) ==         \* T, Dft: functions on the set S of mentioned states
  IF \E s \in S : StateMustReject(T[s], Dft[s], StateReps(T[s])) THEN "MustReject"
  ELSE IF \A s \in S : StateMustAccept(T[s], Dft[s], StateReps(T[s])) THEN "MustAccept"
  ELSE "Either"

-----------------------------------------------------------------------------
(* Transcription of build() as implemented (automata.rs): per state,        *)
(*   validate the transitions AS GIVEN (disjoint labels; default present     *)
(*   iff some character is uncovered), then clean up -- choose the Boyer-    *)
(*   Moore majority target as default when none is declared and it has at    *)
(*   least half of the transitions, drop the transitions into the default -- *)
(*   and route by the remaining transitions, else the default.               *)
(* MC_Builder checks, on every generated specification, that this algorithm  *)
(* rejects every MustReject spec, accepts every MustAccept spec and, when it *)
(* accepts, routes every character exactly as SpecDelta says.  With the two  *)
(* phases in the other order (clean-up first: the defect F7) the same        *)
(* invariants fail in the design, e.g. on  new(0); add(0,[0,0],1).           *)
RECURSIVE MajFold(_, _, _, _), CountTarget(_, _, _)
MajFold(tr, k, maj, cnt) ==         \* first pass of Boyer-Moore over the targets tr[k..]
  IF k > Len(tr) THEN maj
  ELSE LET x == tr[k][2] IN
       IF cnt = 0 THEN MajFold(tr, k + 1, x, 1)
       ELSE IF x = maj THEN MajFold(tr, k + 1, maj, cnt + 1)
       ELSE MajFold(tr, k + 1, maj, cnt - 1)
CountTarget(tr, k, m) == IF k > Len(tr) THEN 0 ELSE (IF tr[k][2] = m THEN 1 ELSE 0) + CountTarget(tr, k + 1, m)
ChooseDefault(tr, df) ==
  IF df # NoDefault \/ tr = <<>> THEN df
  ELSE LET m == MajFold(tr, 2, tr[1][2], 1) IN
       IF CountTarget(tr, 1, m) >= Len(tr) \div 2 THEN <<m>> ELSE df
RECURSIVE DropInto(_, _, _)
DropInto(tr, k, t) == IF k > Len(tr) THEN <<>>
                      ELSE (IF tr[k][2] = t THEN <<>> ELSE <<tr[k]>>) \o DropInto(tr, k + 1, t)
Cleanup(tr, df) == LET d2 == ChooseDefault(tr, df) IN
                   <<IF d2 = NoDefault THEN tr ELSE DropInto(tr, 1, d2[1]), d2>>
\* the per-state checks of build(): "ok" or the error
StateCheck(tr, df, D) ==
  IF ~LabelsDisjoint(tr) THEN "NonDisjointCharSets"
  ELSE IF df # NoDefault /\ ~Uncovered(tr, D) THEN "EmptyComplementaryClass"
  ELSE IF df = NoDefault /\ Uncovered(tr, D) THEN "MissingDefaultSuccessor"
  ELSE "ok"
\* result of the algorithm for one state: <<verdict, transitions used, default used>>
AlgoState(tr, df, D, validateFirst) ==
  IF validateFirst
  THEN LET v == StateCheck(tr, df, D) c == Cleanup(tr, df) IN <<v, c[1], c[2]>>
  ELSE LET c == Cleanup(tr, df) IN <<StateCheck(c[1], c[2], D), c[1], c[2]>>
AlgoDelta(res, x) == SpecDelta(res[2], res[3], x)
AlgoRefinesSpec(T, Dft, S, Alphabet0, validateFirst) ==
  LET r == [s \in S |-> AlgoState(T[s], Dft[s], Alphabet0, validateFirst)]
      accepted == \A s \in S : r[s][1] = "ok"
      v == Verdict(T, Dft, S)
  IN /\ (v = "MustReject" => ~accepted)
     /\ (v = "MustAccept" => accepted)
     /\ accepted => \A s \in S : \A x \in Alphabet0 : AlgoDelta(r[s], x) = SpecDelta(T[s], Dft[s], x)
=============================================================================

CONSTANT MaxChar = 196607
INIT Init
NEXT Next
CHECK_DEADLOCK FALSE
POSTCONDITION Judged

---------------------------- MODULE Constructors ----------------------------
(***************************************************************************)
(* The term representation of the crate and its smart constructors, as an *)
(* executable model (regular_expressions.rs: BaseRegLan, ReManager::concat,*)
(* mk_loop, make_inter, make_union, complement, the derived constructors,  *)
(* compute_derivative).                                                    *)
(*                                                                         *)
(* A model term ("N-term") is the syntax tree of a hash-consed term with   *)
(* ids forgotten: hash-consing makes "same id" and "same tree" equivalent  *)
(* (C07), and every comparison the constructors make between terms is an   *)
(* id comparison.  Unions and intersections carry their operands as a SET  *)
(* (the crate sorts them by id, an order that depends on the history of    *)
(* the manager and that no caller can rely on).                            *)
(*                                                                         *)
(*   [k |-> "none"] [k |-> "eps"] [k |-> "rng", lo, hi]                    *)
(*   [k |-> "cat2", a, b]   [k |-> "loop", a, lo, hi]  (hi = -1: no bound) *)
(*   [k |-> "not", a]       [k |-> "alt", s]   [k |-> "and", s]            *)
(*                                                                         *)
(* Two facts about the id scheme show through in the trees: complement is  *)
(* a link between neighbours (x, x+1), so ~~x is x and never a tree        *)
(* not(not(x)); and the predefined pairs are (sigma, ~sigma), (none, all), *)
(* (eps, sigma+): the complement of eps is the TREE Sigma^[1,inf) and the  *)
(* complement of none is the tree Sigma^[0,inf).                           *)
(*                                                                         *)
(* make_union drops operands that the syntactic inclusion test finds       *)
(* subsumed; which ones depends on the order of the operands.  The model   *)
(* does not transcribe that test: UnionFrame gives the operands after the  *)
(* deterministic simplifications, and a result is allowed when it keeps a  *)
(* subset of the frame (UnionShapeOk) - that every dropped operand really  *)
(* is included in a kept one is the semantic obligation (SameLang) judged  *)
(* with the exact inclusion test of module Regex.                          *)
(***************************************************************************)
EXTENDS Regex

LRg == INSTANCE LoopRanges

NNone == [k |-> "none"]
NEps  == [k |-> "eps"]
NRng(lo, hi) == [k |-> "rng", lo |-> lo, hi |-> hi]
NSigma == NRng(0, MaxChar)
NCat(a, b) == [k |-> "cat2", a |-> a, b |-> b]
NLoop(a, r) == [k |-> "loop", a |-> a, lo |-> r[1], hi |-> r[2]]
NAllT == NLoop(NSigma, <<0, -1>>)
NSigmaPlus == NLoop(NSigma, <<1, -1>>)
NAlt(S) == [k |-> "alt", s |-> S]
NAnd(S) == [k |-> "and", s |-> S]

Rg(t) == <<t.lo, t.hi>>

(* JSON shape (operands as sequences) -> N-term *)
RECURSIVE Cn(_)
Cn(t) ==
  CASE t.k \in {"none", "eps", "rng"} -> t
    [] t.k = "cat2" -> NCat(Cn(t.a), Cn(t.b))
    [] t.k = "loop" -> NLoop(Cn(t.a), <<t.lo, t.hi>>)
    [] t.k = "not"  -> [k |-> "not", a |-> Cn(t.a)]
    [] t.k = "alt"  -> NAlt({Cn(t.xs[i]) : i \in 1..Len(t.xs)})
    [] t.k = "and"  -> NAnd({Cn(t.xs[i]) : i \in 1..Len(t.xs)})

(* N-term -> kernel term of module Regex (any order of the operands) *)
RECURSIVE SetSeq(_), Ke(_)
SetSeq(S) == IF S = {} THEN <<>> ELSE LET x == CHOOSE y \in S : TRUE IN <<x>> \o SetSeq(S \ {x})
Ke(t) ==
  CASE t.k \in {"none", "eps", "rng"} -> t
    [] t.k = "cat2" -> TCat(Ke(t.a), Ke(t.b))
    [] t.k = "loop" -> TLoop(Ke(t.a), t.lo, t.hi)
    [] t.k = "not"  -> TNot(Ke(t.a))
    [] t.k = "alt"  -> LET q == SetSeq(t.s) IN TAlt([i \in 1..Len(q) |-> Ke(q[i])])
    [] t.k = "and"  -> LET q == SetSeq(t.s) IN TAnd([i \in 1..Len(q) |-> Ke(q[i])])

(* BaseRegLan::is_nullable *)
RECURSIVE NulN(_)
NulN(t) ==
  CASE t.k = "none" -> FALSE
    [] t.k = "eps"  -> TRUE
    [] t.k = "rng"  -> FALSE
    [] t.k = "cat2" -> NulN(t.a) /\ NulN(t.b)
    [] t.k = "loop" -> t.lo = 0 \/ NulN(t.a)
    [] t.k = "not"  -> ~NulN(t.a)
    [] t.k = "alt"  -> \E x \in t.s : NulN(x)
    [] t.k = "and"  -> \A x \in t.s : NulN(x)

-----------------------------------------------------------------------------
(* Well-formedness of the trees the manager holds (what the constructors   *)
(* guarantee about their own results and rely on in their arguments).      *)
RECURSIVE WfN(_)
WfN(t) ==
  CASE t.k \in {"none", "eps"} -> TRUE
    [] t.k = "rng"  -> 0 <= t.lo /\ t.lo <= t.hi /\ t.hi <= MaxChar
    [] t.k = "cat2" -> /\ WfN(t.a) /\ WfN(t.b)
                       /\ t.a.k \notin {"none", "eps", "cat2"}          \* right-associated, units removed
                       /\ t.b.k \notin {"none", "eps"}
                       /\ t.a # t.b                                      \* R.R is R^2
                       /\ ~(t.b.k = "loop" /\ t.b.a = t.a) /\ ~(t.a.k = "loop" /\ t.a.a = t.b)
                       /\ ~(t.a.k = "loop" /\ t.b.k = "loop" /\ t.a.a = t.b.a)
                       /\ ~(NulN(t.a) /\ t.b = NAllT)
    [] t.k = "loop" -> /\ WfN(t.a) /\ t.a.k \notin {"none", "eps"}
                       /\ LRg!WellFormed(Rg(t)) /\ Rg(t) \notin {<<0, 0>>, <<1, 1>>}
    [] t.k = "not"  -> WfN(t.a) /\ t.a.k # "not" /\ t.a \notin {NNone, NEps, NAllT, NSigmaPlus}
    [] t.k \in {"alt", "and"} ->
                       /\ Cardinality(t.s) >= 2
                       /\ \A x \in t.s : WfN(x) /\ x.k # t.k /\ x \notin {NNone, NAllT}
                       /\ \A x \in t.s : x.k = "not" => x.a \notin t.s  \* no complementary pair

-----------------------------------------------------------------------------
(* complement: the neighbour in the id scheme *)
MkNot(t) ==
  CASE t.k = "not"     -> t.a
    [] t = NNone       -> NAllT
    [] t = NAllT       -> NNone
    [] t = NEps        -> NSigmaPlus
    [] t = NSigmaPlus  -> NEps
    [] OTHER           -> [k |-> "not", a |-> t]

(* mk_loop *)
MkLoop(e, r) ==
  IF r = <<0, 0>> THEN NEps
  ELSE IF r = <<1, 1>> THEN e
  ELSE CASE e.k = "none" -> IF r[1] = 0 THEN NEps ELSE NNone
         [] e.k = "eps"  -> NEps
         [] e.k = "loop" /\ LRg!ExactCF(Rg(e), r) -> NLoop(e.a, LRg!MulCF(Rg(e), r))
         [] OTHER        -> NLoop(e, r)

(* concat, rule by rule in the order of the code *)
RECURSIVE MkCat(_, _)
MkCat(e1, e2) ==
  CASE e1.k = "none" \/ e2.k = "none" -> NNone
    [] e1.k = "eps" -> e2
    [] e2.k = "eps" -> e1
    [] e2.k = "loop" /\ e2.a = e1 -> NLoop(e1, LRg!AddCF(Rg(e2), <<1, 1>>))
    [] e1.k = "loop" /\ e1.a = e2 -> NLoop(e2, LRg!AddCF(Rg(e1), <<1, 1>>))
    [] e1.k = "loop" /\ e2.k = "loop" /\ e1.a = e2.a -> NLoop(e1.a, LRg!AddCF(Rg(e1), Rg(e2)))
    [] e1 = e2 -> NLoop(e1, <<2, 2>>)
    [] e1.k = "cat2" -> MkCat(e1.a, MkCat(e1.b, e2))
    [] OTHER -> IF NulN(e1) /\ e2 = NAllT THEN e2 ELSE NCat(e1, e2)

(* concat_list: flatten (skipping eps), then fold from the right *)
RECURSIVE FlatCat(_), CatFold(_, _)
FlatCat(t) == CASE t.k = "eps" -> <<>>
                [] t.k = "cat2" -> FlatCat(t.a) \o FlatCat(t.b)
                [] OTHER -> <<t>>
CatFold(q, i) == IF i > Len(q) THEN NEps ELSE MkCat(q[i], CatFold(q, i + 1))
RECURSIVE FlatCatList(_, _)
FlatCatList(ts, i) == IF i > Len(ts) THEN <<>> ELSE FlatCat(ts[i]) \o FlatCatList(ts, i + 1)
MkCatList(ts) == CatFold(FlatCatList(ts, 1), 1)

(* str: concat(char, ...) from the right *)
RECURSIVE MkStr(_, _)
MkStr(w, i) == IF i > Len(w) THEN NEps ELSE MkCat(NRng(w[i], w[i]), MkStr(w, i + 1))

(* simplify_set_operation on the flattened operands: <<"top">> or the set without bottom *)
FlatOp(t, k) == IF t.k = k THEN t.s ELSE {t}
Simplified(F, bottom, top) ==
  IF top \in F \/ \E x \in F : MkNot(x) \in F THEN {top} ELSE F \ {bottom}

MkInterOf(F0) ==
  LET F == Simplified(F0, NAllT, NNone) IN
  IF NEps \in F THEN (IF \A r \in F : NulN(r) THEN NEps ELSE NNone)
  ELSE IF F = {} THEN NAllT
  ELSE IF Cardinality(F) = 1 THEN CHOOSE x \in F : TRUE
  ELSE NAnd(F)
MkInter(ts) == MkInterOf(UNION {FlatOp(ts[i], "and") : i \in 1..Len(ts)})
MkDiff(e, ts) == MkInterOf(FlatOp(e, "and") \cup UNION {FlatOp(MkNot(ts[i]), "and") : i \in 1..Len(ts)})

(* make_union: the frame of operands before subsumption, and what a result may look like *)
UnionFrame(ts) == Simplified(UNION {FlatOp(ts[i], "alt") : i \in 1..Len(ts)}, NNone, NAllT)
Operands(res) == IF res.k = "alt" THEN res.s ELSE IF res = NNone THEN {} ELSE {res}
UnionShapeOk(res, F) ==
  IF F = {NAllT} THEN res = NAllT
  ELSE /\ Operands(res) \subseteq F
       /\ (F # {} => Operands(res) # {})
\* the result without subsumption (what the union would be if nothing were dropped): for the semantics
MkUnionAll(F) == IF F = {} THEN NNone ELSE IF Cardinality(F) = 1 THEN CHOOSE x \in F : TRUE ELSE NAlt(F)

-----------------------------------------------------------------------------
(* compute_derivative, one level: the derivative of e with respect to c    *)
(* given the derivatives ds of the immediate sub-terms (in the order a, b  *)
(* for cat2; SetSeq order is not used: for alt/and ds is a SET).           *)
(* Results involving a union are <<"union", frame>>, others <<"is", term>> *)
DerivStep(e, c, da, db, ds) ==
  CASE e.k \in {"none", "eps"} -> <<"is", NNone>>
    [] e.k = "rng"  -> <<"is", IF e.lo <= c /\ c <= e.hi THEN NEps ELSE NNone>>
    [] e.k = "cat2" -> LET d1 == MkCat(da, e.b) IN
                       IF NulN(e.a) THEN <<"union", UnionFrame(<<d1, db>>)>> ELSE <<"is", d1>>
    [] e.k = "loop" -> <<"is", MkCat(da, MkLoop(e.a, LRg!ShiftCF(Rg(e))))>>
    [] e.k = "not"  -> <<"is", MkNot(da)>>
    [] e.k = "and"  -> <<"is", MkInterOf(UNION {FlatOp(x, "and") : x \in ds})>>
    [] e.k = "alt"  -> <<"union", Simplified(UNION {FlatOp(x, "alt") : x \in ds}, NNone, NAllT)>>

(* the whole derivative in the model, with unions left unpruned *)
RECURSIVE DerivN(_, _)
DerivN(e, c) ==
  LET st == DerivStep(e, c,
                      IF e.k \in {"cat2", "loop", "not"} THEN DerivN(e.a, c) ELSE NNone,
                      IF e.k = "cat2" /\ NulN(e.a) THEN DerivN(e.b, c) ELSE NNone,
                      IF e.k \in {"alt", "and"} THEN {DerivN(x, c) : x \in e.s} ELSE {})
  IN IF st[1] = "is" THEN st[2] ELSE MkUnionAll(st[2])

(* a kernel construction (module Regex) carried out with the model constructors *)
RECURSIVE BuildN(_)
BuildN(t) ==
  CASE t.k \in {"none", "eps", "rng"} -> t
    [] t.k = "str"  -> MkStr(t.w, 1)
    [] t.k = "cat2" -> MkCat(BuildN(t.a), BuildN(t.b))
    [] t.k = "loop" -> MkLoop(BuildN(t.a), <<t.lo, t.hi>>)
    [] t.k = "not"  -> MkNot(BuildN(t.a))
    [] t.k = "alt"  -> MkUnionAll(UnionFrame([i \in 1..Len(t.xs) |-> BuildN(t.xs[i])]))
    [] t.k = "and"  -> MkInter([i \in 1..Len(t.xs) |-> BuildN(t.xs[i])])
    [] t.k = "quot" -> DerivN(BuildN(t.a), t.c)

(* BaseRegLan::deriv_class: the derivative classes of a term as a set of intervals <<lo, hi>> (the complementary   *)
(* class is the rest of the alphabet).  merge_partitions overlays two partitions: the cut points of both, and     *)
(* every piece between consecutive cut points that lies inside an interval of either one.                        *)
Overlay(P, Q) ==
  LET U    == P \cup Q
      cuts == {p[1] : p \in U} \cup {p[2] + 1 : p \in U}
      nextCut(c) == CHOOSE d \in cuts : d > c /\ \A e \in cuts : e > c => d <= e
      pieces == {<<c, nextCut(c) - 1>> : c \in {x \in cuts : \E d \in cuts : d > x}}
  IN {q \in pieces : \E p \in U : p[1] <= q[1] /\ q[2] <= p[2]}
RECURSIVE OverlayAll(_)
OverlayAll(Ps) == IF Ps = {} THEN {} ELSE LET P == CHOOSE X \in Ps : TRUE IN Overlay(P, OverlayAll(Ps \ {P}))
RECURSIVE ClassesN(_)
ClassesN(t) ==
  CASE t.k \in {"none", "eps"} -> {}
    [] t.k = "rng"  -> {<<t.lo, t.hi>>}
    [] t.k = "cat2" -> IF NulN(t.a) THEN Overlay(ClassesN(t.a), ClassesN(t.b)) ELSE ClassesN(t.a)
    [] t.k \in {"loop", "not"} -> ClassesN(t.a)
    [] t.k \in {"alt", "and"} -> OverlayAll({ClassesN(x) : x \in t.s})

(* ReManager::start_char, case by case: a concatenation starts with c if its head does and the tail is not empty, *)
(* or the head is nullable and the tail starts with c; intersections and complements are decided on the        *)
(* derivative.  Emptiness is the exact test of module Regex (the crate calls is_empty_re).                     *)
RECURSIVE StartN(_, _)
StartN(t, c) ==
  CASE t.k \in {"none", "eps"} -> FALSE
    [] t.k = "rng"  -> t.lo <= c /\ c <= t.hi
    [] t.k = "cat2" -> (StartN(t.a, c) /\ NonEmpty(Ke(t.b))) \/ (NulN(t.a) /\ StartN(t.b, c))
    [] t.k = "loop" -> StartN(t.a, c)
    [] t.k = "alt"  -> \E x \in t.s : StartN(x, c)
    [] t.k \in {"and", "not"} -> NonEmpty(Ke(DerivN(t, c)))

(* matcher::naive_re_search on model terms: an empty match at k if allowed and the pattern is nullable; else for  *)
(* every start i >= k, derive along the subject until the derivative is nullable (match i..j+1) or is the Empty   *)
(* term (give up this start).  Result <<i, j>> (0-based, end exclusive) or <<-1, -1>>.                          *)
RECURSIVE ScanN(_, _, _, _), SearchFromN(_, _, _)
ScanN(p, s, i, j) ==                    \* p = derivative of the pattern along s[i..j)
  IF j >= Len(s) THEN -1
  ELSE LET q == DerivN(p, s[j + 1]) IN
       IF NulN(q) THEN j + 1 ELSE IF q = NNone THEN -1 ELSE ScanN(q, s, i, j + 1)
SearchFromN(pat, s, i) ==
  IF i >= Len(s) THEN <<-1, -1>>
  ELSE LET e == ScanN(pat, s, i, i) IN IF e >= 0 THEN <<i, e>> ELSE SearchFromN(pat, s, i + 1)
SearchN(pat, s, k, allowEmpty) == IF allowEmpty /\ NulN(pat) THEN <<k, k>> ELSE SearchFromN(pat, s, k)
(* str_replace_re / str_replace_re_all on top of it *)
ReplaceReN(s, pat, u) ==
  LET m == SearchN(pat, s, 0, TRUE) IN
  IF m[1] < 0 THEN s ELSE SubSeq(s, 1, m[1]) \o u \o SubSeq(s, m[2] + 1, Len(s))
RECURSIVE ReplaceAllFromN(_, _, _, _)
ReplaceAllFromN(s, pat, u, i) ==
  LET m == SearchN(pat, s, i, FALSE) IN
  IF m[1] < 0 THEN SubSeq(s, i + 1, Len(s))
  ELSE SubSeq(s, i + 1, m[1]) \o u \o ReplaceAllFromN(s, pat, u, m[2])
ReplaceReAllN(s, pat, u) == ReplaceAllFromN(s, pat, u, 0)

-----------------------------------------------------------------------------
(* The syntactic inclusion test (sub_language / concat_inclusion), transcribed.  A concatenation is flattened    *)
(* into its factors; the right-hand side is cut into maximal runs of RIGID factors (character ranges) and         *)
(* FLEXIBLE ones; a rigid first / last run must match the head / tail of the left-hand side factor by factor     *)
(* (the left factor is a range covered by the right one); the remaining rigid runs are placed greedily from the  *)
(* left (then, if that fails, from the right) and every flexible run must be exactly Sigma^*, which matches      *)
(* whatever lies between its neighbours.  Indices are 0-based, runs are <<start, end, rigid>> with end exclusive.*)
ConcatOrAtomic(t) == t.k \in {"none", "eps", "rng", "cat2", "loop"}
MatchCS(x, p) == x.k = "rng" /\ p.lo <= x.lo /\ x.hi <= p.hi          \* the factor x is a range covered by p
RECURSIVE RunsFrom(_, _, _)
RunsFrom(v, j, i) ==                      \* runs of v[j..], the current run started at j, i = next index to look at
  IF i >= Len(v) THEN <<<<j, Len(v), v[j + 1].k = "rng">>>>
  ELSE IF (v[i + 1].k = "rng") # (v[j + 1].k = "rng")
       THEN <<<<j, i, v[j + 1].k = "rng">>>> \o RunsFrom(v, i, i + 1)
       ELSE RunsFrom(v, j, i + 1)
BasePatterns(v) == IF Len(v) = 0 THEN <<>> ELSE RunsFrom(v, 0, 1)
RigidAt(u, v, p, i) == \A j \in 0..(p[2] - p[1] - 1) : MatchCS(u[i + j + 1], v[p[1] + j + 1])
PLen(p) == p[2] - p[1]
\* greedy placement of the rigid runs from the left: sequence of <<startMatch, endMatch>> per run, or <<>> on failure
RECURSIVE PlaceL(_, _, _, _, _)
PlaceL(u, v, ps, k, i) ==                 \* runs ps[k..], search from position i of u
  IF k > Len(ps) THEN <<TRUE, <<>>>>
  ELSE IF ~ps[k][3] THEN LET rest == PlaceL(u, v, ps, k + 1, i) IN <<rest[1], <<<<0, 0>>>> \o rest[2]>>
  ELSE LET cands == {j \in i..(Len(u) - PLen(ps[k])) : RigidAt(u, v, ps[k], j)} IN
       IF cands = {} THEN <<FALSE, <<>>>>
       ELSE LET j == CHOOSE x \in cands : \A y \in cands : x <= y
                rest == PlaceL(u, v, ps, k + 1, j + PLen(ps[k]))
            IN <<rest[1], <<<<j, j + PLen(ps[k])>>>> \o rest[2]>>
RECURSIVE PlaceR(_, _, _, _, _)
PlaceR(u, v, ps, k, i) ==                 \* runs ps[1..k] from the right, matches must end at or before i
  IF k < 1 THEN <<TRUE, <<>>>>
  ELSE IF ~ps[k][3] THEN LET rest == PlaceR(u, v, ps, k - 1, i) IN <<rest[1], rest[2] \o <<<<0, 0>>>>>>
  ELSE LET cands == {j \in PLen(ps[k])..i : RigidAt(u, v, ps[k], j - PLen(ps[k]))} IN
       IF cands = {} THEN <<FALSE, <<>>>>
       ELSE LET j == CHOOSE x \in cands : \A y \in cands : x >= y
                rest == PlaceR(u, v, ps, k - 1, j - PLen(ps[k]))
            IN <<rest[1], rest[2] \o <<<<j - PLen(ps[k]), j>>>>>>
\* every flexible run is exactly <<Sigma^*>> (its region in u is whatever lies between the neighbouring matches)
FlexOk(u, v, ps, m) ==
  IF Len(ps) = 0 THEN Len(u) = 0
  ELSE \A k \in 1..Len(ps) : ps[k][3] \/ (PLen(ps[k]) = 1 /\ v[ps[k][1] + 1] = NAllT)
ConcatInclusion(u0, v0) ==
  LET b0 == BasePatterns(v0)
      \* a rigid first run must match the head of u
      headRigid == Len(b0) > 0 /\ b0[1][3]
      headOk    == ~headRigid \/ (Len(u0) >= PLen(b0[1]) /\ RigidAt(u0, v0, b0[1], 0))
      hl        == IF headRigid THEN PLen(b0[1]) ELSE 0
      u1 == IF headOk THEN SubSeq(u0, hl + 1, Len(u0)) ELSE <<>>
      v1 == SubSeq(v0, hl + 1, Len(v0))
      b1 == IF headRigid THEN [k \in 1..(Len(b0) - 1) |-> <<b0[k + 1][1] - hl, b0[k + 1][2] - hl, b0[k + 1][3]>>] ELSE b0
      \* a rigid last run (of what is left) must match the tail of u
      tailRigid == Len(b1) > 0 /\ b1[Len(b1)][3]
      tl        == IF tailRigid THEN PLen(b1[Len(b1)]) ELSE 0
      tailOk    == ~tailRigid \/ (Len(u1) >= tl /\ RigidAt(u1, v1, b1[Len(b1)], Len(u1) - tl))
      u2 == IF tailOk THEN SubSeq(u1, 1, Len(u1) - tl) ELSE <<>>
      v2 == SubSeq(v1, 1, Len(v1) - tl)
      b2 == IF tailRigid THEN SubSeq(b1, 1, Len(b1) - 1) ELSE b1
  IN /\ headOk /\ tailOk
     /\ \/ (PlaceL(u2, v2, b2, 1, 0)[1] /\ FlexOk(u2, v2, b2, <<>>))
        \/ (PlaceR(u2, v2, b2, Len(b2), Len(u2))[1] /\ FlexOk(u2, v2, b2, <<>>))
RECURSIVE SubLangN(_, _)
SubLangN(r, s) ==                         \* the arms in the order of the code (the first that applies decides)
  IF r = s THEN TRUE
  ELSE IF r.k = "none" THEN TRUE
  ELSE IF s.k = "none" THEN FALSE
  ELSE IF r.k = "eps" THEN NulN(s)
  ELSE IF s.k = "eps" THEN FALSE
  ELSE IF r.k = "not" /\ s.k = "not" THEN SubLangN(s.a, r.a)
  ELSE IF s.k = "alt" THEN ConcatOrAtomic(r) /\ \E x \in s.s : SubLangN(r, x)
  ELSE IF r.k = "and" THEN ConcatOrAtomic(s) /\ \E x \in r.s : SubLangN(x, s)
  ELSE IF r.k = "alt" THEN ConcatOrAtomic(s) /\ \A x \in r.s : SubLangN(x, s)
  ELSE IF s.k = "and" THEN ConcatOrAtomic(r) /\ \A x \in s.s : SubLangN(r, x)
  ELSE ConcatInclusion(FlatCat(r), FlatCat(s))

(* exact language equality of two N-terms *)
SameLang(a, b) == Equiv(Ke(a), Ke(b))
=============================================================================

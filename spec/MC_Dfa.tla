------------------------------- MODULE MC_Dfa -------------------------------
(* U2 for Dfa: TLC enumerates EVERY complete DFA with 1..MaxStates states    *)
(* over NLetters letters (initial state 1; all-final, none-final and         *)
(* unreachable parts included by construction) and emits one JSON line each. *)
(* U1 on the way: the definitions of Dfa.tla are cross-checked on each       *)
(* automaton (Nerode is an equivalence compatible with delta; the quotient   *)
(* automaton is reduced and has the same language).                          *)
EXTENDS Dfa, TLC, Json

CONSTANTS MaxStates, NLetters

VARIABLES d, ph
vars == <<d, ph>>

DfasOf(n) == {[init |-> 1, final |-> f, delta |-> dl] :
                 f \in [1..n -> BOOLEAN], dl \in [1..n -> [1..NLetters -> 1..n]]}
Init == ph = 0 /\ d \in UNION {DfasOf(n) : n \in 1..MaxStates}
Next == ph = 0 /\ ph' = 1 /\ d' = d /\ PrintT(ToJson([final |-> d.final, delta |-> d.delta]))

(* quotient of the reachable part by the Nerode equivalence, states renamed 1..k *)
Quotient(a) ==
  LET E == Nerode(a)
      R == Reach(a)
      cls(s) == {t \in R : <<s, t>> \in E}
      C == {cls(s) : s \in R}
      rep(c) == CHOOSE s \in c : TRUE
      num == CHOOSE f \in [C -> 1..Cardinality(C)] : \A x, y \in C : x # y => f[x] # f[y]
      inv(k) == CHOOSE c \in C : num[c] = k
  IN [init |-> num[cls(a.init)],
      final |-> [k \in 1..Cardinality(C) |-> a.final[rep(inv(k))]],
      delta |-> [k \in 1..Cardinality(C) |-> [j \in Letters(a) |-> num[cls(a.delta[rep(inv(k))][j])]]]]

DefinitionsAgree == ph = 0 \/
  LET E == Nerode(d) q == Quotient(d) IN
  /\ \A s \in States(d) : <<s, s>> \in E
  /\ \A p \in E : <<p[2], p[1]>> \in E /\ \A j \in Letters(d) : <<d.delta[p[1]][j], d.delta[p[2]][j]>> \in E
  /\ WellFormedDfa(q) /\ Reduced(q) /\ LangEq(d, q)
  /\ Len(q.final) = MinimalSize(d)
  /\ Reach(q) = States(q)
=============================================================================

CONSTANTS U = 3  MaxOps = 4
INIT Init
NEXT Next
CHECK_DEADLOCK FALSE

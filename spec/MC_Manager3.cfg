CONSTANT MaxPrefix = 3
INIT Init
NEXT Next
CHECK_DEADLOCK FALSE

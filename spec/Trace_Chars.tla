---------------------------- MODULE Trace_Chars ----------------------------
(* Validates charsets.ndjson (C20): every CharSet operation performed by    *)
(* the real crate must satisfy the set-theoretic obligations of Chars.      *)
EXTENDS TraceBase, Chars, SequencesExt

RSet(r) == IF r = None THEN {} ELSE {r}

Bad(e) ==
  CASE e.op = "ctor" ->
         Failed({<<"C20:ctor", IF e.what = "all_chars" THEN e.r = <<0, MaxChar>> ELSE e.r = <<e.x, e.x>>>>})
    [] e.op = "unary" ->
         LET D == Reps({e.c, Pt(e.c[1])}) IN
         Failed({<<"C20:size", ObSize(e.c, e.size)>>,
                 <<"C20:is_singleton", ObSingleton(e.c, e.single, D)>>,
                 <<"C20:is_alphabet", ObAlphabet(e.c, e.alpha, D)>>,
                 <<"C20:pick", ObPick(e.c, e.pick)>>,
                 <<"C20:range", e.ends = e.c>>})
    [] e.op = "point" ->
         LET D == Reps({e.c, Pt(e.x)}) IN
         Failed({<<"C20:contains", ObContains(e.c, e.x, e.contains)>>,
                 <<"C20:is_before", ObBefore(e.c, e.x, e.before, D)>>,
                 <<"C20:is_after", ObAfter(e.c, e.x, e.after, D)>>})
    [] e.op = "inter"  -> Failed({<<"C20:inter", ObInter(e.c, e.d, e.r, Reps({e.c, e.d} \cup RSet(e.r)))>>})
    [] e.op = "union"  -> Failed({<<"C20:union", ObUnion(e.c, e.d, e.r, Reps({e.c, e.d} \cup RSet(e.r)))>>})
    [] e.op = "covers" -> Failed({<<"C20:covers", ObCovers(e.c, e.d, e.r, Reps({e.c, e.d}))>>})
    [] e.op = "cmp"    -> Failed({<<"C20:partial_cmp", ObCmp(e.c, e.d, e.r, Reps({e.c, e.d}))>>,
                                  <<"C20:eq", e.eq = SameSet(e.c, e.d, Reps({e.c, e.d}))>>,
                                  \* <, <=, >, >=, != are the relations of the same partial order
                                  <<"C20:comparison_operators",
                                     LET D == Reps({e.c, e.d})
                                         same == SameSet(e.c, e.d, D)
                                         lt == ~same /\ AllBefore(e.c, e.d, D)
                                         gt == ~same /\ AllBefore(e.d, e.c, D)
                                     IN e.ops = <<lt, lt \/ same, gt, gt \/ same, ~same>>>>})
    [] e.op = "interlist" ->
         Failed({<<"C20:inter_list", ObInterList(e.cs, e.r, Reps(ToSet(e.cs) \cup RSet(e.r)))>>})
    [] OTHER -> {"C20:unknown_event"}

Init == TInit
Next == TNext(Bad)
=============================================================================

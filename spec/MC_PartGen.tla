----------------------------- MODULE MC_PartGen -----------------------------
(* U2 for Partitions: TLC enumerates every behaviour of the PartitionObj    *)
(* state machine over the small alphabet 0..MaxChar -- New/FromSet followed *)
(* by enabled Push steps (= every partition, built by every route) and       *)
(* every TryFromList call on lists of <= ListLen intervals in every order,   *)
(* overlapping or not -- and emits one JSON line per behaviour.  The harness *)
(* replays them on the real crate under block embeddings and logs the        *)
(* object's projection after every action; Trace_Partitions judges them.     *)
EXTENDS Partitions, TLC, Json

CONSTANT ListLen

VARIABLES route, done
vars == <<part, route, done>>

Emit(r, l) == PrintT(ToJson([route |-> r, ivs |-> l]))

Init == /\ done = FALSE
        /\ \/ route = "push" /\ part = <<>>
           \/ route = "list" /\ part = <<>>
           \/ \E c \in Intervals : route = "from_set" /\ part = <<c>>

Next ==
  /\ ~done
  /\ \/ route \in {"push", "from_set"} /\ \E c \in Intervals : PPush(c) /\ UNCHANGED <<route, done>>
     \/ route \in {"push", "from_set"} /\ Emit(route, part) /\ done' = TRUE /\ UNCHANGED <<part, route>>
     \/ route = "list" /\ Len(part) < ListLen /\ \E c \in Intervals : part' = Append(part, c) /\ UNCHANGED <<route, done>>
     \/ route = "list" /\ Emit(route, part) /\ done' = TRUE /\ UNCHANGED <<part, route>>

(* design-level facts about the state machine itself *)
PushKeepsPartition == route \in {"push", "from_set"} => SortedDisjoint(part)
ListVerdict == (route = "list" /\ ListAccepted(part)) => SortedDisjoint(SortedOf(SeqSet(part)))
=============================================================================

-------------------------- MODULE Trace_Partitions --------------------------
(* Validates the partition traces of the real crate (C11, C12).             *)
(* A "part" record is one behaviour of the PartitionObj state machine       *)
(* (route push / from_set: projection after EVERY action; route list:       *)
(* try_from_list/try_from_iter verdict and projection), followed by the     *)
(* queries made on the final object.                                        *)
EXTENDS TraceBase, Partitions

\* `part` (declared by Partitions for the state machine) is carried unchanged by the validator
Tag(p, obs) == {<<p \o ":" \o o[1], o[2]>> : o \in obs}

ValidInput(ivs) == \A i \in 1..Len(ivs) : IsInterval(ivs[i])

\* abstract state after k actions of a push / from_set behaviour
Prefix(e, k) == IF e.route = "push" THEN SubSeq(e.ivs, 1, k - 1)
                ELSE IF e.route = "list+push" THEN SubSeq(e.ivs, 1, e.k + k - 1)      \* try_from_list of k intervals, then pushes
                ELSE SubSeq(e.ivs, 1, k)

StepObs(e, k) ==
  LET P == SeqSet(Prefix(e, k))
      o == e.steps[k]
      D == Reps(P \cup {Pt(o.witness)} \cup {Pt(o.picks[j]) : j \in 1..Len(o.picks)})
  IN ProjObligations(P, o, D)
     \cup {<<"ranges_iterator", o.ranges = o.ivs>>,
           <<"start_end", /\ o.starts = [i \in 1..Len(o.ivs) |-> o.ivs[i][1]]
                          /\ o.ends = [i \in 1..Len(o.ivs) |-> o.ivs[i][2]]>>,
           <<"is_empty", o.is_empty = (P = {})>>}

QueryObs(P, o, e) ==
  {<<"class_of_char", \A j \in 1..Len(e.chars) : ObClassOfChar(P, o.ivs, e.chars[j].x, e.chars[j].cid)>>,
   <<"interval_cover", \A j \in 1..Len(e.sets) : ObCover(P, o.ivs, <<e.sets[j].a, e.sets[j].b>>, e.sets[j])>>}

BadPart(e) ==
  IF e.route \in {"push", "from_set", "list+push"} THEN
     IF e.res # "ok" \/ Len(e.steps) # (IF e.route = "push" THEN Len(e.ivs) + 1
                                        ELSE IF e.route = "list+push" THEN Len(e.ivs) - e.k + 1 ELSE Len(e.ivs))
     THEN {"C11:object_lifecycle"}
     ELSE LET P == SeqSet(e.ivs)
              \* queries interleaved with the pushes: right before push j the two end points of the new interval are
              \* in no interval (push's precondition puts it above everything present); right after, in the last one
              np == Len(e.probes)
              ProbeOk(j) == LET pr == e.probes[j]
                                n  == Len(e.steps[Len(e.steps) - np + j].ivs)      \* intervals after push j
                            IN /\ pr.before = <<-1, -1>>
                               /\ pr.after = <<n - 1, n - 1, n - 1>>
          IN
          Failed(Tag("C11", UNION {StepObs(e, k) : k \in 1..Len(e.steps)}
                            \cup QueryObs(P, e.steps[Len(e.steps)], e)
                            \cup {<<"class_of_char_between_pushes", \A j \in 1..np : ProbeOk(j)>>}))
  ELSE \* try_from_list / try_from_iter
     IF ~ListAccepted(e.ivs)
     THEN Failed({<<"C11:try_from_list_rejects_overlap", e.res # "ok" /\ e.res # "panic" /\ e.iter_same>>})
     ELSE IF e.res # "ok" \/ Len(e.steps) # 1 THEN {"C11:try_from_list_accepts_disjoint"}
     ELSE LET P == SeqSet(e.ivs)
              o == e.steps[1]
              D == Reps(P \cup {Pt(o.witness)} \cup {Pt(o.picks[j]) : j \in 1..Len(o.picks)})
          IN Failed(Tag("C11", ProjObligations(P, o, D) \cup QueryObs(P, o, e)
                               \cup {<<"try_from_iter_same", e.iter_same>>}))

(* run-length encoded full-alphabet scan of class_of_char: runs[j] = <<first char, cid>> *)
BadScan(e) ==
  LET P == SeqSet(e.ivs)
      n == Len(e.runs)
      ivs == SortedOf(P)
      \* the scan as a function on all characters is determined by its runs; it is right iff
      \* the run boundaries are exactly the region boundaries and each run has the right class
      RunOk(j) == LET x == e.runs[j][1]
                      last == IF j < n THEN e.runs[j + 1][1] - 1 ELSE MaxChar
                  IN /\ ObClassOfChar(P, ivs, x, e.runs[j][2])
                     /\ ClassOf(P, x) = ClassOf(P, last)
                     /\ \A c \in P : (x < c[1] => last < c[1]) /\ (x <= c[2] => last <= c[2])
  IN Failed({<<"C11:class_of_char_all_characters", n >= 1 /\ e.runs[1][1] = 0 /\ \A j \in 1..n : RunOk(j)>>})

BadMerge(P1, P2, mo, extraD) ==
  LET M == SeqSet(mo.ivs)
      D == Reps(P1 \cup P2 \cup M \cup {Pt(mo.witness)}) \cup extraD
      lit == LiteralViolations(P1, P2, M, D)
      unsep == {xy \in lit : ~Separated(P1, P2, xy[1], xy[2], D)}
  IN Failed(Tag("C12", MergeObligations(P1, P2, M, mo, D)))
     \cup (IF unsep # {} THEN {"C12:coarsest_same_classes_merged"} ELSE {})
     \cup (IF lit # {} /\ unsep = {} THEN {"C12:literal_iff_noncontiguous_class"} ELSE {})

\* the set-theoretic coarsest refinement of a list of partitions, as characters' class tuples
ClassTuple(ps, x) == [i \in 1..Len(ps) |-> ClassOf(SeqSet(ps[i]), x)]
BadMergeList(e) ==
  LET ps == e.ps
      M  == SeqSet(e.m.ivs)
      D  == Reps(UNION {SeqSet(ps[i]) : i \in 1..Len(ps)} \cup M \cup {Pt(e.m.witness)})
      ce == CompEmpty(M, D)
  IN Failed({
       <<"C12:list_refines_all", \A x, y \in D : ClassOf(M, x) = ClassOf(M, y) => ClassTuple(ps, x) = ClassTuple(ps, y)>>,
       <<"C12:list_sorted_disjoint", SortedDisjoint(e.m.ivs)>>,
       <<"C12:list_maximal", \A y \in D : (y > 0 /\ ClassTuple(ps, y - 1) = ClassTuple(ps, y)) => ClassOf(M, y - 1) = ClassOf(M, y)>>,
       <<"C12:list_complement", \A x \in D : ~InSome(M, x) <=> \A i \in 1..Len(ps) : ~InSome(SeqSet(ps[i]), x)>>,
       <<"C12:list_witness", e.m.empty_comp = ce /\ (~ce => (e.m.witness \in 0..MaxChar /\ ~InSome(M, e.m.witness)))>>,
       <<"C12:empty_list_is_empty_partition", Len(ps) = 0 => e.m.ivs = <<>>>>})

Bad(e) ==
  CASE e.op = "panic" -> {e.where}
    [] e.op = "part"  -> IF ValidInput(e.ivs) THEN BadPart(e) ELSE {"harness:bad_input"}
    [] e.op = "scan"  -> BadScan(e)
    [] e.op = "merge" -> BadMerge(SeqSet(e.p1), SeqSet(e.p2), e.m, {})
    [] e.op = "mergelist" -> BadMergeList(e)
    [] OTHER -> {"unknown_event"}

Init == TInit /\ part = <<>>
Next == TNext(Bad) /\ UNCHANGED part
=============================================================================

---------------------------- MODULE MC_MergeList ----------------------------
(***************************************************************************)
(* Design-level model (U1) of merge_partition_list: why a LIST of          *)
(* partitions may be reduced in any order and any grouping.                *)
(*                                                                         *)
(* MergeSet(P1,P2) is the denotational coarsest common refinement: the     *)
(* maximal runs of covered characters on which the pair (class in P1,      *)
(* class in P2) is constant.  Checked on EVERY triple of partitions of     *)
(* 0..MaxChar:                                                             *)
(*   Determined  the obligations (a)-(d) of Partitions.MergeObligations,   *)
(*               by which the validator judges every recorded merge, are   *)
(*               satisfied by MergeSet and by NO other partition (a wrong  *)
(*               result cannot pass them);                                 *)
(*   Monoid      MergeSet is associative, commutative, idempotent, with    *)
(*               the empty partition as neutral element: the left fold of  *)
(*               the code, a right fold and a balanced reduction all give  *)
(*               the same partition, in any order of the list;             *)
(*   NAry        that partition is the n-ary definition used for recorded  *)
(*               list merges: maximal runs of covered characters with a    *)
(*               constant tuple of classes.                                *)
(* A reduction that drops or repeats an element is outside this algebra    *)
(* only through dropping: repeating is harmless (idempotence).             *)
(***************************************************************************)
EXTENDS Partitions, TLC

RECURSIVE PartsFrom(_)
PartsFrom(lo) == {<<>>} \cup UNION {{<<c>> \o rest : rest \in PartsFrom(c[2] + 1)} : c \in {c \in Intervals : c[1] >= lo}}
AllParts == {SeqSet(s) : s \in PartsFrom(0)}
D == 0..MaxChar

\* the tuple of classes of character x in a sequence of partitions
Tuple(ps, x) == [i \in 1..Len(ps) |-> ClassOf(ps[i], x)]
Covered(ps, x) == \E i \in 1..Len(ps) : InSome(ps[i], x)
Same(ps, x, y) == Covered(ps, x) /\ Covered(ps, y) /\ Tuple(ps, x) = Tuple(ps, y)
\* maximal runs
Runs(ps) == {c \in Intervals :
               /\ \A x \in c[1]..c[2] : Same(ps, c[1], x)
               /\ (c[1] = 0 \/ ~Same(ps, c[1] - 1, c[1]))
               /\ (c[2] = MaxChar \/ ~Same(ps, c[2], c[2] + 1))}
MergeSet(P1, P2) == Runs(<<P1, P2>>)

VARIABLES a, b, c
vars == <<a, b, c>>
Unset == {<<-7, -7>>}
Init == a \in AllParts /\ b = Unset /\ c = Unset /\ part = <<>>
Next == b = Unset /\ b' \in AllParts /\ c' \in AllParts /\ a' = a /\ UNCHANGED part
Loaded == b # Unset

\* obligations (a)-(d) hold for M as the merge of P1 and P2 (the complement-witness clause concerns the object, not the set)
Passes(P1, P2, M) ==
  LET mo == [ivs |-> SortedOf(M), empty_comp |-> CompEmpty(M, D), witness |-> IF CompEmpty(M, D) THEN 0 ELSE CHOOSE x \in D : ~InSome(M, x)]
  IN \A o \in MergeObligations(P1, P2, M, mo, D) : o[2]

Determined == Loaded => (Passes(a, b, MergeSet(a, b)) /\ (Passes(a, b, c) => c = MergeSet(a, b)))
Monoid ==
  Loaded => /\ MergeSet(MergeSet(a, b), c) = MergeSet(a, MergeSet(b, c))
            /\ MergeSet(a, b) = MergeSet(b, a)
            /\ MergeSet(a, a) = a
            /\ MergeSet(a, {}) = a
NAry ==
  Loaded => /\ MergeSet(MergeSet(a, b), c) = Runs(<<a, b, c>>)
            /\ MergeSet(MergeSet(a, c), MergeSet(b, a)) = Runs(<<a, b, c>>)     \* another grouping, one element repeated
            /\ Runs(<<a>>) = a /\ Runs(<<>>) = {}
=============================================================================

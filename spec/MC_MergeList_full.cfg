CONSTANT MaxChar = 4
INIT Init
NEXT Next
INVARIANT Determined
INVARIANT Monoid
INVARIANT NAry
CHECK_DEADLOCK FALSE

------------------------------ MODULE MC_Rules ------------------------------
(***************************************************************************)
(* The rewrite rules of the smart constructors (ReManager::concat,         *)
(* mk_loop, make_inter, make_union, complement), transcribed as semantic   *)
(* equations  lhs = rhs [if condition]  and checked (U1) with the          *)
(* denotational semantics on every instantiation with R over the depth-<=1 *)
(* terms, S and T over the atoms, and loop ranges over the small pool:     *)
(* the rule SET is language preserving in the design.  (That the code      *)
(* applies these rules and no others correctly is what the product checks  *)
(* of C01 establish on the real terms.)                                    *)
(*                                                                         *)
(*  concat   empty.R = R.empty = empty;  eps.R = R.eps = R;                *)
(*           R.R^[i,j] = R^[i,j].R = R^[i+1,j+1];  R^[a,b].R^[c,d] =       *)
(*           R^[a+c,b+d];  R.R = R^2;  (R.S).T = R.(S.T);                  *)
(*           S.all = all if S is nullable                                  *)
(*  mk_loop  R^[0,0] = eps; R^[1,1] = R; empty^[0,j] = eps;                *)
(*           empty^[i,j] = empty (i > 0); eps^[i,j] = eps;                 *)
(*           (R^[i,j])^[k,l] = R^[ik,jl] if the product of ranges is exact *)
(*  inter    with eps among the operands: eps if all are nullable, else    *)
(*           empty; all is neutral, empty absorbing, X & ~X = empty        *)
(*  union    empty is neutral, all absorbing, X + ~X = all, an operand     *)
(*           included in another one may be dropped                        *)
(*  comp     ~~X = X                                                       *)
(***************************************************************************)
EXTENDS MC_Regex

LRg == INSTANCE LoopRanges

Same(a, b) == \A w \in Words : Matches(a, w) = Matches(b, w)
L(a, r) == TLoop(a, r[1], r[2])
Nul(a) == Matches(a, <<>>)
Incl(a, b) == \A w \in Words : Matches(a, w) => Matches(b, w)

RulesFor(R) ==
  /\ Same(TCat(TNone, R), TNone) /\ Same(TCat(R, TNone), TNone)
  /\ Same(TCat(TEps, R), R) /\ Same(TCat(R, TEps), R)
  /\ Same(TCat(R, R), L(R, <<2, 2>>))
  /\ Nul(R) => Same(TCat(R, TAll), TAll)
  /\ Same(L(R, <<0, 0>>), TEps) /\ Same(L(R, <<1, 1>>), R)
  /\ Same(TNot(TNot(R)), R)
  /\ Same(TAlt(<<R, TNot(R)>>), TAll) /\ Same(TAnd(<<R, TNot(R)>>), TNone)
  /\ Same(TAlt(<<R, TNone>>), R) /\ Same(TAlt(<<R, TAll>>), TAll)
  /\ Same(TAnd(<<R, TAll>>), R) /\ Same(TAnd(<<R, TNone>>), TNone)
  /\ Same(TAnd(<<R, TEps>>), IF Nul(R) THEN TEps ELSE TNone)
  /\ \A i \in 1..Len(LR) :
        LET r == LR[i] IN
        /\ Same(TCat(R, L(R, r)), L(R, LRg!AddCF(r, <<1, 1>>)))
        /\ Same(TCat(L(R, r), R), L(R, LRg!AddCF(r, <<1, 1>>)))
        /\ Same(L(TNone, r), IF r[1] = 0 THEN TEps ELSE TNone)
        /\ Same(L(TEps, r), TEps)
        /\ \A j \in 1..Len(LR) :
              LET s == LR[j] IN
              /\ Same(TCat(L(R, r), L(R, s)), L(R, LRg!AddCF(r, s)))
              /\ LRg!ExactCF(r, s) => Same(L(L(R, r), s), L(R, LRg!MulCF(r, s)))
  /\ \A a \in 1..N0 : \A b \in 1..N0 :
        LET S == S0[a] T == S0[b] IN
        /\ Same(TCat(TCat(R, S), T), TCat(R, TCat(S, T)))
        /\ Same(TAnd(<<R, S, TEps>>), IF Nul(R) /\ Nul(S) THEN TEps ELSE TNone)
        /\ Incl(S, R) => Same(TAlt(<<R, S, T>>), TAlt(<<R, T>>))         \* dropping a subsumed operand

(* The derivative algorithm (ReManager::compute_derivative), rule by rule, on kernel terms:            *)
(*   d(none) = d(eps) = none;  d([lo,hi]) = eps if c in it else none;                                  *)
(*   d(R.S) = d(R).S + (d(S) if R nullable);  d(R^[i,j]) = d(R).R^shift[i,j];                          *)
(*   d(~R) = ~d(R);  d(and/alt) componentwise;  d(str) by its first character.                         *)
(* Checked against the left quotient  { w : c.w in L(t) }  (TQuot) on all words.                       *)
RECURSIVE Deriv(_, _)
Deriv(t, c) ==
  CASE t.k \in {"none", "eps"} -> TNone
    [] t.k = "rng"  -> IF t.lo <= c /\ c <= t.hi THEN TEps ELSE TNone
    [] t.k = "str"  -> IF Len(t.w) >= 1 /\ t.w[1] = c THEN TStr(Tail(t.w)) ELSE TNone
    [] t.k = "cat2" -> LET d1 == TCat(Deriv(t.a, c), t.b) IN
                       IF Nul(t.a) THEN TAlt(<<d1, Deriv(t.b, c)>>) ELSE d1
    [] t.k = "loop" -> \* mk_loop never builds R^[0,0] (it is eps): the rule below is only sound for hi # 0
                       IF t.hi = 0 THEN TNone
                       ELSE TCat(Deriv(t.a, c), L(t.a, LRg!ShiftCF(<<t.lo, t.hi>>)))
    [] t.k = "not"  -> TNot(Deriv(t.a, c))
    [] t.k = "alt"  -> TAlt([i \in 1..Len(t.xs) |-> Deriv(t.xs[i], c)])
    [] t.k = "and"  -> TAnd([i \in 1..Len(t.xs) |-> Deriv(t.xs[i], c)])
    [] t.k = "quot" -> Deriv(Deriv(t.a, t.c), c)
DerivOk(R) == \A c \in Sigma : Same(Deriv(R, c), TQuot(c, R))
                 /\ \A c2 \in Sigma : Same(Deriv(Deriv(R, c), c2), TQuot(c2, TQuot(c, R)))

(* Derivative classes (BaseRegLan::deriv_class) as an equivalence on characters: two characters in the  *)
(* same class must have the same derivative (left quotient).  Concat looks at the right operand only    *)
(* when the left one is nullable; loops and complements inherit; unions/intersections refine all.       *)
RECURSIVE SameClass(_, _, _)
SameClass(t, x, y) ==
  CASE t.k \in {"none", "eps"} -> TRUE
    [] t.k = "rng"  -> (t.lo <= x /\ x <= t.hi) = (t.lo <= y /\ y <= t.hi)
    [] t.k = "str"  -> t.w = <<>> \/ ((t.w[1] = x) = (t.w[1] = y))
    [] t.k = "cat2" -> SameClass(t.a, x, y) /\ (Nul(t.a) => SameClass(t.b, x, y))
    [] t.k \in {"loop", "not"} -> SameClass(t.a, x, y)
    [] t.k \in {"alt", "and"} -> \A i \in 1..Len(t.xs) : SameClass(t.xs[i], x, y)
    [] t.k = "quot" -> TRUE                     \* (no class rule for quotients: they are not terms of the crate)
ClassesOk(R) == R.k = "quot" \/ \A x, y \in Sigma : SameClass(R, x, y) => Same(TQuot(x, R), TQuot(y, R))

JudgeR(n) == IF RulesFor(S1[n]) /\ DerivOk(S1[n]) /\ DerivOk(L(S1[n], <<1, 2>>)) /\ DerivOk(L(S1[n], <<2, -1>>))
                /\ (S1[n].k # "quot" => (ClassesOk(S1[n]) /\ ClassesOk(TCat(L(S1[n], <<0, 1>>), TRng(0, 0))) /\ ClassesOk(TCat(S1[n], TNot(TRng(1, 1)))))) THEN TRUE ELSE PrintT(<<"RULEBUG", S1[n]>>) /\ FALSE
InitR == l \in 1..(IF N1 < K THEN N1 ELSE K)
NextR == l <= N1 /\ JudgeR(l) /\ l' = l + K
DoneR == TLCGet("stats").distinct = N1 + (IF N1 < K THEN N1 ELSE K)
=============================================================================

CONSTANTS MaxChar = 1  WordLen = 1  Full = FALSE
INIT InitC
NEXT NextC
INVARIANTS Wf NullOk
CHECK_DEADLOCK FALSE

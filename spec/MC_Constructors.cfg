CONSTANTS MaxChar = 1  WordLen = 1  Full = FALSE
INIT InitC
NEXT NextC
INVARIANTS Wf NullOk Involution ClassUniform StartOk MatcherOk
CHECK_DEADLOCK FALSE

------------------------------ MODULE Alphabet ------------------------------
(* The SMT-LIB alphabet: code points 0..MaxChar (0x2FFFF = 196607 in the     *)
(* crate; small values in small-scope models).                               *)
CONSTANT MaxChar
=============================================================================

---------------------------- MODULE Trace_Regex ----------------------------
(* Per-call obligations about regular expressions on traces of the real     *)
(* crate: every record carries the construction AST of its term(s).         *)
EXTENDS TraceBase, Regex

RunOk(t, w, r) == r = Accepts(t, w)

Bad(e) ==
  CASE e.op = "panic" -> {e.where}
    [] e.op = "mem" ->
         LET t == Core(e.ast) IN
         Failed({<<"C01:nullable", e.nullable = Nullable(t)>>,
                 <<"C01:str_in_re", \A j \in 1..Len(e.words) : RunOk(t, e.words[j], e.res[j])>>})
    [] OTHER -> {"unknown_event"}

Init == TInit
Next == TNext(Bad)
=============================================================================

---------------------------- MODULE Trace_Regex ----------------------------
(* Per-call obligations about regular expressions on traces of the real     *)
(* crate: every record carries the construction AST of its term(s).         *)
EXTENDS TraceBase, Constructors

RunOk(t, w, r) == r = Accepts(t, w)

Bad(e) ==
  CASE e.op = "panic" -> {e.where}
    [] e.op = "mem" ->
         LET t == Core(e.ast)
             \* records made while several managers were alive and used alternately also count for C07: the language
             \* of a construction does not depend on what other managers exist or did
             il == "interleaved" \in DOMAIN e
             ok == e.nullable = Nullable(t) /\ \A j \in 1..Len(e.words) : RunOk(t, e.words[j], e.res[j])
         IN
         Failed({<<"C01:nullable", e.nullable = Nullable(t)>>,
                 <<"C01:str_in_re", \A j \in 1..Len(e.words) : RunOk(t, e.words[j], e.res[j])>>,
                 <<"C07:language_independent_of_other_managers", il => ok>>})
    [] e.op = "empty" ->
         LET t == Core(e.ast)
             wOk == e.has_w => /\ (e.w_check => Accepts(t, e.w)) /\ e.w_in_re /\ e.w_acc /\ e.w_good
                               /\ \A j \in 1..Len(e.w) : e.w[j] \in 0..MaxChar
         IN
         IF e.exact THEN
            LET ne == NonEmpty(t) IN
            Failed({<<"C05:is_empty_re", e.empty = ~ne>>,
                    <<"C05:get_string_none_iff_empty", e.has_w = ne>>,
                    <<"C05:witness_is_member", wOk>>,
                    <<"C17:get_string_good", e.has_w => e.w_good>>})
         ELSE \* too costly for the exact closure: consistency and the witness only
            Failed({<<"C05:is_empty_re", (e.has_w /\ e.w_check /\ Accepts(t, e.w)) => ~e.empty>>,
                    <<"C05:get_string_none_iff_empty", e.has_w = ~e.empty>>,
                    <<"C05:witness_is_member", wOk>>})
    [] e.op = "start" ->
         LET t  == Core(e.ast)
             R  == TermReps(t)
             q0 == RInit(t)
             sw(c) == NonEmptyFrom(t, R, RStep(t, q0, c))          \* = StartsWith(t, c)
             nr == Len(e.ranges)
             inClass(cid, x) == IF cid >= 0 THEN cid < nr /\ e.ranges[cid + 1][1] <= x /\ x <= e.ranges[cid + 1][2]
                                ELSE \A a \in 1..nr : ~(e.ranges[a][1] <= x /\ x <= e.ranges[a][2])
             covered == \A j \in 1..Len(e.chars) : \E a \in 1..nr : e.ranges[a][1] <= e.chars[j] /\ e.chars[j] <= e.ranges[a][2]
             validId(cid) == IF cid >= 0 THEN cid < nr ELSE ~covered
             truth == [j \in 1..Len(e.chars) |-> sw(e.chars[j])]
         IN
         Failed({<<"C18:start_char", \A j \in 1..Len(e.chars) : e.res[j] = truth[j]>>,
                 <<"C18:start_class",
                    \A k \in 1..Len(e.classes) :
                       LET cl == e.classes[k] IN
                       IF validId(cl.cid)
                       THEN /\ cl.valid
                            /\ cl.res \in {"ok:true", "ok:false"}
                            /\ \A j \in 1..Len(e.chars) : inClass(cl.cid, e.chars[j]) => (cl.res = "ok:true") = truth[j]
                       ELSE ~cl.valid /\ cl.res = "err:BadClassId">>})
    [] e.op = "closure_capped" -> Failed({<<"C19:terminates", e.terminated>>})
    [] e.op \in {"closure", "closure_big"} ->
         LET n == e.len
             res(name) == LET k == CHOOSE k \in 1..Len(e.tries) : e.tries[k].n = name IN e.tries[k]
         IN
         Failed({<<"C19:terminates", e.terminated>>,
                 <<"C19:first_is_e", e.first_is_root>>,
                 <<"C19:no_duplicates", e.distinct = e.len /\ e.stable>>,
                 <<"C19:closed_under_char_derivative", e.op = "closure" => (e.nnodes = e.niter /\ e.niter = e.len)>>,
                 \* nothing else: every listed term is an iterated derivative of the first one
                 <<"C19:every_item_is_an_iterated_derivative",
                    e.op = "closure" =>
                      LET RECURSIVE Cl(_, _)
                          Cl(fr, seen) == IF fr = {} THEN seen
                                          ELSE LET nx == {e.delta[a][j] : a \in fr, j \in 1..e.nreps} \ seen IN Cl(nx, seen \cup nx)
                      IN 1..e.niter \subseteq Cl({1}, {1})>>,
                 <<"C19:try_compile_bound",
                    /\ res("0").res = "none"
                    /\ res("L-1").res = "none"
                    /\ res("L").res = "some" /\ res("L").ns = n
                    /\ res("L+1").res = "some" /\ res("L+1").ns = n
                    /\ res("max").res = "some" /\ res("max").ns = n
                    \* every other bound tried is >= n (bounds around 2^16, 2^32, 2^40, the largest ones)
                    /\ \A k \in 1..Len(e.tries) :
                          e.tries[k].n \notin {"0", "L-1"} => e.tries[k].res = "some" /\ e.tries[k].ns = n>>,
                 <<"C19:compile_num_states", e.compile_ns = n>>})
    [] e.op = "replace_re" ->
         LET t == Core(e.ast) IN
         Failed({<<"C10:no_panic", Len(e.panics) = 0>>,
                 <<"C10:str_replace_re", \A j \in 1..Len(e.calls) :
                       LET c == e.calls[j] IN ~c.all => c.r = ReplaceRe(c.s, t, c.u)>>,
                 <<"C10:str_replace_re_all", \A j \in 1..Len(e.calls) :
                       LET c == e.calls[j] IN c.all => c.r = ReplaceReAll(c.s, t, c.u)>>,
                 <<"C17:result_good", \A j \in 1..Len(e.calls) : e.calls[j].good>>})
    [] e.op = "incl" ->
         Failed({<<"C16:included_in_sound", e.res => SubLang(Core(e.a), Core(e.b))>>,
                 <<"C16:reflexive", e.same => e.res>>,
                 \* the answer is the one the transcribed test (Constructors!SubLangN) gives on the trees of the two
                 \* real terms - an internal specification: NOTE level
                 <<"RULES:included_in_as_modelled",
                    Len(e.shapes) = 2 => e.res = SubLangN(Cn(e.shapes[1]), Cn(e.shapes[2]))>>,
                 \* the union of the two terms (pruned with the same test) loses no string
                 <<"C16:union_keeps_all_strings",
                    Len(e.uwords) > 0 =>
                      LET u == TAlt(<<Core(e.a), Core(e.b)>>) IN
                      \A j \in 1..Len(e.uwords) : e.ures[j] = Accepts(u, e.uwords[j])>>})
    [] OTHER -> {"unknown_event"}

Init == TInit
Next == TNext(Bad)
=============================================================================

----------------------------- MODULE TraceBase -----------------------------
(* Shared scaffolding of the "parallel" trace validators (DESIGN 4.3): the  *)
(* records of an ndjson trace written by the harness from the real crate    *)
(* are independent cases; the record index is the initial state and the     *)
(* obligations are evaluated in the single Next step (so that TLC's workers *)
(* share the load; initial states are computed serially).  A failed         *)
(* obligation does not block: it is printed as <<"VIOL", line, names>> and  *)
(* the orchestrator turns it into VIOLATION / KNOWN-FINDING.                *)
EXTENDS Integers, Sequences, TLC, Json, IOUtils

Rec == ndJsonDeserialize(IOEnv.VH_TRACE)
N   == Len(Rec)

\* set of names of failed obligations out of a set of <<name, holds>> pairs
Failed(obs) == {o[1] : o \in {p \in obs : ~p[2]}}

Report(i, bad) == IF bad = {} THEN TRUE ELSE PrintT(<<"VIOL", i, bad>>)

(* K interleaved shards: shard s judges records s, s+K, s+2K, ...  Few       *)
(* initial states (they are generated serially), all judging in Next.        *)
VARIABLE l
K == 64
TInit == l \in 1..(IF N < K THEN N ELSE K)
TNext(Bad(_)) == l <= N /\ Report(l, Bad(Rec[l])) /\ l' = l + K
\* every record was judged: exactly the positions 1..N+K (or N+N) were visited
Judged == TLCGet("stats").distinct = N + (IF N < K THEN N ELSE K)
=============================================================================

------------------------------ MODULE GapLemma ------------------------------
(***************************************************************************)
(* The arithmetic core of LoopRange::right_mul_is_exact, for ALL naturals  *)
(* (TLAPS).  The y-fold sums of [a,b] form the interval [y*a, y*b].  Two   *)
(* consecutive intervals leave no gap iff (y+1)*a <= y*b + 1, i.e.         *)
(* y*(b-a) >= a-1.  The crate tests this at the least y = c only; that is  *)
(* enough because the left-hand side grows with y.  (The set-level         *)
(* statement -- the union over y in [c,d] equals [c*a, d*b] -- is model-   *)
(* checked on the small scope by MC_LoopRanges.)                           *)
(***************************************************************************)
EXTENDS Integers, NaturalsInduction, TLAPS

LEMMA MulMono ==
  ASSUME NEW k \in Nat, NEW c \in Nat, NEW y \in Nat, c <= y
  PROVE  c * k <= y * k
  <1> DEFINE P(n) == c * k <= (c + n) * k
  <1>1. P(0)
      OBVIOUS
  <1>2. \A n \in Nat : P(n) => P(n + 1)
      <2> SUFFICES ASSUME NEW n \in Nat, P(n) PROVE P(n + 1)
          OBVIOUS
      <2>1. (c + (n + 1)) * k = (c + n) * k + k
          OBVIOUS
      <2> QED
          BY <2>1
  <1>3. \A n \in Nat : P(n)
      BY <1>1, <1>2, NatInduction, Isa
  <1>4. y - c \in Nat /\ c + (y - c) = y
      OBVIOUS
  <1> QED
      BY <1>3, <1>4

THEOREM NoGapFromC ==
  ASSUME NEW a \in Nat, NEW b \in Nat, a <= b,
         NEW c \in Nat, NEW y \in Nat, c <= y,
         c * (b - a) >= a - 1                       \* the criterion, at the least multiplier
  PROVE  (y + 1) * a <= y * b + 1                   \* no gap between [y*a, y*b] and [(y+1)*a, (y+1)*b]
  <1>1. b - a \in Nat
      OBVIOUS
  <1>2. c * (b - a) <= y * (b - a)
      BY <1>1, MulMono
  <1>3. y * (b - a) >= a - 1
      BY <1>2
  <1>4. y * (b - a) = y * b - y * a
      OBVIOUS
  <1>5. (y + 1) * a = y * a + a
      OBVIOUS
  <1> QED
      BY <1>3, <1>4, <1>5
=============================================================================

--------------------------- MODULE MC_Constructors ---------------------------
(***************************************************************************)
(* U1 for Constructors: the model of the crate's term representation       *)
(* (normal forms + derivative rules) explored in PRODUCT with the residual *)
(* automaton of the construction it came from.                             *)
(*                                                                         *)
(* One behaviour per kernel construction of MC_Regex's universe (depth     *)
(* <= 2): the construction is carried out with the model constructors      *)
(* (BuildN), then derivatives are taken with the model rules (DerivN) for  *)
(* every character, as long as new (residual state, term) pairs appear.    *)
(*                                                                         *)
(*   Wf        every term the constructors produce is in normal form       *)
(*             (the shape the rules rely on in their arguments)            *)
(*   NullOk    the nullable flag of the term = finality of the residual    *)
(*             state: along every word, so the rule set preserves the      *)
(*             language (C01) and the derivative rules compute left        *)
(*             quotients (C03) in the design                               *)
(*   Involution complement is an involution without fixed points on every   *)
(*             reachable term, stays in normal form, flips the nullable    *)
(*             flag (C07's complement clause, in the design)               *)
(*   StartOk   the case analysis of start_char (a concatenation needs a     *)
(*             non-empty tail, intersections and complements go through    *)
(*             the derivative) agrees with "some member begins with c"     *)
(*             (C18, in the design; defect F8 is a counterexample to the   *)
(*             pre-repair rule)                                            *)
(*   MatcherOk the search loop of matcher.rs (derive until nullable or      *)
(*             syntactically empty, next start otherwise) run on the model  *)
(*             computes str.replace_re / replace_re_all as SMT-LIB defines  *)
(*             them (C10, in the design)                                    *)
(*   finite    TLC terminates: the derivative closure of every term is     *)
(*             finite under these normal forms (the design argument behind *)
(*             "iter_derivatives terminates", C19) - without any help from *)
(*             the subsumption pruning of unions, which the model leaves   *)
(*             out                                                         *)
(***************************************************************************)
EXTENDS MC_Regex, Constructors

VARIABLES r, s, t
cvars == <<r, s, t>>

(* Seeds are loaded in Next (TLC computes initial states serially and evaluates the invariants on them): K loader *)
(* chains (r = -1) walk over the seed indices; each loader state spawns the seed state of its index.               *)
InitC == l \in 0..K - 1 /\ r = -1 /\ s = 0 /\ t = NNone
LoadC == /\ r = -1 /\ l < NT
         /\ \/ (r' = l /\ l' = l /\ s' = RInit(TermAt(l)) /\ t' = BuildN(TermAt(l)))
            \/ (r' = -1 /\ l' = l + K /\ s' = s /\ t' = t)
StepC == /\ r >= 0
         /\ \E c \in Sigma : /\ r' = r /\ l' = l
                               /\ s' = RStep(TermAt(r), s, c)
                               /\ t' = DerivN(t, c)
NextC == LoadC \/ StepC
Wf     == r >= 0 => WfN(t)
NullOk == r >= 0 => NulN(t) = RFinal(TermAt(r), s)
\* complement is an involution without fixed points on every term the model can reach (C07, in the design)
Involution == r >= 0 => MkNot(MkNot(t)) = t /\ MkNot(t) # t /\ WfN(MkNot(t)) /\ NulN(MkNot(t)) = ~NulN(t)
\* two characters of one modelled derivative class (or both in the complementary class) have the same modelled
\* derivative: the class computation is consistent with the derivative rules (C03's uniformity, in the design)
ClsOf(P, x) == {p \in P : p[1] <= x /\ x <= p[2]}
ClassUniform == r >= 0 => \A x, y \in Sigma : ClsOf(ClassesN(t), x) = ClsOf(ClassesN(t), y) => DerivN(t, x) = DerivN(t, y)
\* the case analysis of start_char agrees with the semantics: some member of the language of t begins with c
\* (the language of t is the residual language of the construction at state s)
StartOk == r >= 0 => \A c \in Sigma : StartN(t, c) = NonEmptyFrom(TermAt(r), TermReps(TermAt(r)), RStep(TermAt(r), s, c))
\* the search loop of the matcher, run on the model terms, computes SMT-LIB's replace_re / replace_re_all (the
\* declarative leftmost-shortest definitions of module Regex) on every subject of length <= 3; checked on the
\* seed terms only (l = 0 there and the term is the construction itself)
ReplaceSubjects == WordsOf(3)
MatcherOk == (r >= 0 /\ s = RInit(TermAt(r)) /\ t = BuildN(TermAt(r))) =>
               \A w \in ReplaceSubjects :
                  /\ ReplaceReN(w, t, <<9>>) = ReplaceRe(w, TermAt(r), <<9>>)
                  /\ ReplaceReAllN(w, t, <<9>>) = ReplaceReAll(w, TermAt(r), <<9>>)

=============================================================================

----------------------------- MODULE MC_Strings -----------------------------
(* U1 for SmtStrings: internal consistency of the definitions on all strings *)
(* of length <= StrLen over the alphabet 0..MaxChar (small).                 *)
EXTENDS SmtStrings, TLC

CONSTANT StrLen
RECURSIVE StringsOf(_)
StringsOf(n) == IF n = 0 THEN {<<>>} ELSE LET S == StringsOf(n - 1) IN S \cup {Append(s, c) : s \in S, c \in 0..MaxChar}
Strs == StringsOf(StrLen)

VARIABLES s, t, ph
Init == s \in Strs /\ t \in Strs /\ ph = 0
Next == ph = 0 /\ ph' = 1 /\ UNCHANGED <<s, t>>

OrderLaws == ph = 0 \/
  /\ ~Lt(s, s)
  /\ (s # t) => (Lt(s, t) \/ Lt(t, s))                       \* total
  /\ ~(Lt(s, t) /\ Lt(t, s))                                 \* asymmetric
  /\ \A u \in Strs : (Lt(s, t) /\ Lt(t, u)) => Lt(s, u)      \* transitive
  /\ Le(s, t) = (s = t \/ Lt(s, t))
  /\ (PrefixOf(s, t) /\ s # t) => Lt(s, t)                   \* proper prefixes come first

SearchLaws == ph = 0 \/
  /\ Contains(s, t) = (IndexOf(s, t, 0) >= 0)
  /\ IndexOf(s, <<>>, Len(s)) = Len(s)
  /\ Replace(s, <<>>, t) = t \o s
  /\ ReplaceAll(s, <<>>, t) = s
  /\ (t # <<>> /\ ~Contains(s, t)) => (Replace(s, t, s) = s /\ ReplaceAll(s, t, s) = s)
  /\ \A i \in -1..Len(s) + 1 : At(s, i) = Substr(s, i, 1)
  /\ \A i \in 0..Len(s) : LET n == IndexOf(s, t, i) IN n >= 0 => (n >= i /\ OccursAt(s, t, n))
  /\ (t # <<>>) => ~Contains(ReplaceAll(s, t, <<>>), t) \/ Len(t) > 1   \* single letters are all removed

IntLaws == ph = 0 \/
  \A n \in {0, 1, 9, 10, 99, 100, 12345, 2147483647, 2147483646, 1000000000} :
     ToInt(FromInt(n)) = n /\ ToInt(FromInt(n) \o <<48>>) = (IF n <= 214748364 THEN n * 10 ELSE -2)
=============================================================================

CONSTANTS MaxChar = 196607  TextLen = 5  AttemptDigits = 4
INIT Init
NEXT Next
CHECK_DEADLOCK FALSE
POSTCONDITION Done

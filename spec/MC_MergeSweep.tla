---------------------------- MODULE MC_MergeSweep ----------------------------
(***************************************************************************)
(* Algorithm transcription (U1): merge_partitions of character_sets.rs --  *)
(* the two-finger sweep with its carried (index, start, end) triples and   *)
(* the push with complement-witness update -- in PlusCal, arm by arm, and  *)
(* checked against the set-theoretic obligations (a)-(e) of Partitions.tla *)
(* on EVERY ordered pair of partitions of 0..MaxChar.                      *)
(***************************************************************************)
EXTENDS Partitions, TLC

RECURSIVE PartsFrom(_)
PartsFrom(lo) == {<<>>} \cup UNION {{<<c>> \o rest : rest \in PartsFrom(c[2] + 1)} : c \in {c \in Intervals : c[1] >= lo}}
AllPartitions == PartsFrom(0)

\* next_interval(p, i): <<i + 1, start, end>> with the out-of-range convention (MaxChar+1, MaxChar+1)
NextIv(p, i) == IF i < Len(p) THEN <<i + 1, p[i + 1][1], p[i + 1][2]>> ELSE <<i + 1, MaxChar + 1, MaxChar + 1>>

(* --algorithm Merge
variables p1 \in AllPartitions, p2 \in AllPartitions,
          t1 = NextIv(p1, 0), t2 = NextIv(p2, 0),
          res = <<>>, wit = 0;
define
  A == t1[2]  B == t1[3]  C == t2[2]  D == t2[3]
end define;
macro push(lo, hi) begin
  res := Append(res, <<lo, hi>>);
  if lo <= wit then wit := hi + 1; end if;
end macro;
begin
  L: while t1[3] <= MaxChar \/ t2[3] <= MaxChar do
       if B < C then push(A, B); t1 := NextIv(p1, t1[1]);
       elsif D < A then push(C, D); t2 := NextIv(p2, t2[1]);
       elsif C < A then push(C, A - 1); t2 := <<t2[1], A, D>>;
       elsif A < C then push(A, C - 1); t1 := <<t1[1], C, B>>;
       elsif B < D then push(A, B); t1 := NextIv(p1, t1[1]) || t2 := <<t2[1], B + 1, D>>;
       elsif D < B then push(C, D); t1 := <<t1[1], D + 1, B>> || t2 := NextIv(p2, t2[1]);
       else push(A, B); t1 := NextIv(p1, t1[1]) || t2 := NextIv(p2, t2[1]);
       end if;
     end while;
end algorithm; *)
\* BEGIN TRANSLATION
VARIABLES pc, p1, p2, t1, t2, res, wit

(* define statement *)
A == t1[2]  B == t1[3]  C == t2[2]  D == t2[3]


vars == << pc, p1, p2, t1, t2, res, wit >>

Init == (* Global variables *)
        /\ p1 \in AllPartitions
        /\ p2 \in AllPartitions
        /\ t1 = NextIv(p1, 0)
        /\ t2 = NextIv(p2, 0)
        /\ res = <<>>
        /\ wit = 0
        /\ pc = "L"

L == /\ pc = "L"
     /\ IF t1[3] <= MaxChar \/ t2[3] <= MaxChar
           THEN /\ IF B < C
                      THEN /\ res' = Append(res, <<A, B>>)
                           /\ IF A <= wit
                                 THEN /\ wit' = B + 1
                                 ELSE /\ TRUE
                                      /\ wit' = wit
                           /\ t1' = NextIv(p1, t1[1])
                           /\ t2' = t2
                      ELSE /\ IF D < A
                                 THEN /\ res' = Append(res, <<C, D>>)
                                      /\ IF C <= wit
                                            THEN /\ wit' = D + 1
                                            ELSE /\ TRUE
                                                 /\ wit' = wit
                                      /\ t2' = NextIv(p2, t2[1])
                                      /\ t1' = t1
                                 ELSE /\ IF C < A
                                            THEN /\ res' = Append(res, <<C, (A - 1)>>)
                                                 /\ IF C <= wit
                                                       THEN /\ wit' = (A - 1) + 1
                                                       ELSE /\ TRUE
                                                            /\ wit' = wit
                                                 /\ t2' = <<t2[1], A, D>>
                                                 /\ t1' = t1
                                            ELSE /\ IF A < C
                                                       THEN /\ res' = Append(res, <<A, (C - 1)>>)
                                                            /\ IF A <= wit
                                                                  THEN /\ wit' = (C - 1) + 1
                                                                  ELSE /\ TRUE
                                                                       /\ wit' = wit
                                                            /\ t1' = <<t1[1], C, B>>
                                                            /\ t2' = t2
                                                       ELSE /\ IF B < D
                                                                  THEN /\ res' = Append(res, <<A, B>>)
                                                                       /\ IF A <= wit
                                                                             THEN /\ wit' = B + 1
                                                                             ELSE /\ TRUE
                                                                                  /\ wit' = wit
                                                                       /\ /\ t1' = NextIv(p1, t1[1])
                                                                          /\ t2' = <<t2[1], B + 1, D>>
                                                                  ELSE /\ IF D < B
                                                                             THEN /\ res' = Append(res, <<C, D>>)
                                                                                  /\ IF C <= wit
                                                                                        THEN /\ wit' = D + 1
                                                                                        ELSE /\ TRUE
                                                                                             /\ wit' = wit
                                                                                  /\ /\ t1' = <<t1[1], D + 1, B>>
                                                                                     /\ t2' = NextIv(p2, t2[1])
                                                                             ELSE /\ res' = Append(res, <<A, B>>)
                                                                                  /\ IF A <= wit
                                                                                        THEN /\ wit' = B + 1
                                                                                        ELSE /\ TRUE
                                                                                             /\ wit' = wit
                                                                                  /\ /\ t1' = NextIv(p1, t1[1])
                                                                                     /\ t2' = NextIv(p2, t2[1])
                /\ pc' = "L"
           ELSE /\ pc' = "Done"
                /\ UNCHANGED << t1, t2, res, wit >>
     /\ UNCHANGED << p1, p2 >>

(* Allow infinite stuttering to prevent deadlock on termination. *)
Terminating == pc = "Done" /\ UNCHANGED vars

Next == L
           \/ Terminating

Spec == Init /\ [][Next]_vars

Termination == <>(pc = "Done")

\* END TRANSLATION

InitP == Init /\ part = <<>>
NextP == Next /\ UNCHANGED part
Done == pc = "Done"
Obs == MergeObligations(SeqSet(p1), SeqSet(p2), SeqSet(res),
                        [ivs |-> res, witness |-> wit, empty_comp |-> wit > MaxChar], 0..MaxChar)
MergeCorrect == Done => \A o \in Obs : o[2]
\* every push respects push's precondition (sorted, disjoint) -- the result is a partition at every step
PushPrecondition == SortedDisjoint(res)
\* the literal reading fails only on separated pairs (finding F9), never otherwise
LiteralOnlySeparated ==
  Done => \A xy \in LiteralViolations(SeqSet(p1), SeqSet(p2), SeqSet(res), 0..MaxChar) :
             Separated(SeqSet(p1), SeqSet(p2), xy[1], xy[2], 0..MaxChar)
=============================================================================

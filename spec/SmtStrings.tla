----------------------------- MODULE SmtStrings -----------------------------
(***************************************************************************)
(* The SMT-LIB 2.6 theory of strings (functions without regular            *)
(* expressions), written from the standard's semantic clauses on           *)
(* sequences of code points.  Positions are 0-based as in SMT-LIB;         *)
(* TLA+ sequences are 1-based, hence the +1 in subscripts.                 *)
(***************************************************************************)
EXTENDS Alphabet, Integers, Sequences


Good(s) == \A k \in 1..Len(s) : s[k] \in 0..MaxChar

Concat(s, t) == s \o t
Length(s)    == Len(s)

\* t occurs in s at 0-based position n
OccursAt(s, t, n) == n >= 0 /\ n + Len(t) <= Len(s) /\ \A k \in 1..Len(t) : s[n + k] = t[k]

\* str.at: the singleton string at position i, or the empty string
At(s, i) == IF 0 <= i /\ i < Len(s) THEN <<s[i + 1]>> ELSE <<>>

\* str.substr s i n: the longest substring of s of length at most n starting at i; empty if i is out of
\* range or n is not positive.  (i + n is never formed: it may exceed 32 bits.)
Substr(s, i, n) ==
  IF 0 <= i /\ i < Len(s) /\ n > 0
  THEN LET m == IF n >= Len(s) - i THEN Len(s) - i ELSE n IN SubSeq(s, i + 1, i + m)
  ELSE <<>>

PrefixOf(t, s) == OccursAt(s, t, 0)
SuffixOf(t, s) == Len(t) <= Len(s) /\ OccursAt(s, t, Len(s) - Len(t))
Contains(s, t) == \E n \in 0..Len(s) : OccursAt(s, t, n)

\* str.indexof s t i: the least n >= i at which t occurs in s; -1 if there is none or i is not in 0..|s|
IndexOf(s, t, i) ==
  IF i < 0 \/ i > Len(s) THEN -1
  ELSE LET occ == {n \in i..Len(s) : OccursAt(s, t, n)} IN
       IF occ = {} THEN -1 ELSE CHOOSE n \in occ : \A m \in occ : n <= m

\* str.replace s t t2: replace the first (leftmost) occurrence of t in s by t2; the empty string occurs at 0
Replace(s, t, t2) ==
  LET n == IndexOf(s, t, 0) IN
  IF n < 0 THEN s ELSE SubSeq(s, 1, n) \o t2 \o SubSeq(s, n + Len(t) + 1, Len(s))

\* str.replace_all s t t2: s if t is empty; otherwise replace, left to right, each first occurrence in the rest
RECURSIVE ReplaceAllFrom(_, _, _, _)
ReplaceAllFrom(s, t, t2, from) ==          \* from: 0-based position where the scan resumes
  LET n == IndexOf(s, t, from) IN
  IF n < 0 THEN SubSeq(s, from + 1, Len(s))
  ELSE SubSeq(s, from + 1, n) \o t2 \o ReplaceAllFrom(s, t, t2, n + Len(t))
ReplaceAll(s, t, t2) == IF t = <<>> THEN s ELSE ReplaceAllFrom(s, t, t2, 0)

-----------------------------------------------------------------------------
(* lexicographic order on code-point sequences *)
RECURSIVE Lt(_, _)
Lt(s, t) == IF t = <<>> THEN FALSE
            ELSE IF s = <<>> THEN TRUE
            ELSE IF Head(s) # Head(t) THEN Head(s) < Head(t)
            ELSE Lt(Tail(s), Tail(t))
Le(s, t) == s = t \/ Lt(s, t)

(* digits and conversions *)
IsDigitChar(c) == 48 <= c /\ c <= 57
IsDigit(s) == Len(s) = 1 /\ IsDigitChar(s[1])
MaxInt == 2147483647
\* value of a digit string, or -2 ("does not fit in 31 bits"); never forms a number above MaxInt
RECURSIVE DigitsValue(_, _)
DigitsValue(s, acc) ==
  IF s = <<>> THEN acc
  ELSE LET d == Head(s) - 48 IN
       IF acc > (MaxInt - d) \div 10 THEN -2 ELSE DigitsValue(Tail(s), acc * 10 + d)
\* str.to_int: -1 unless s is a non-empty digit string; "overflow" is reported as -2
ToInt(s) == IF s = <<>> \/ \E k \in 1..Len(s) : ~IsDigitChar(s[k]) THEN -1 ELSE DigitsValue(s, 0)
RECURSIVE DigitsOf(_)
DigitsOf(n) == IF n < 10 THEN <<48 + n>> ELSE Append(DigitsOf(n \div 10), 48 + (n % 10))
FromInt(n)  == IF n < 0 THEN <<>> ELSE DigitsOf(n)
ToCode(s)   == IF Len(s) = 1 THEN s[1] ELSE -1
FromCode(n) == IF 0 <= n /\ n <= MaxChar THEN <<n>> ELSE <<>>
=============================================================================

------------------------------ MODULE MC_Regex ------------------------------
(* U1 for Regex: the executable residual automaton (used as the oracle in   *)
(* every product exploration) agrees with the denotational semantics on      *)
(* every kernel term of depth <= 2 over the alphabet 0..MaxChar and every    *)
(* word of length <= WordLen; the shortcuts taken by Core for the derived    *)
(* constructors agree with SMT-LIB's literal definitions; the exact          *)
(* emptiness test agrees with bounded search.                                *)
EXTENDS Regex, SequencesExt, TLC

CONSTANTS WordLen, Full            \* Full: binary operators over D1 x D1 (else D1 x D0 and D0 x D1)

Sigma == 0..MaxChar
RECURSIVE WordsOf(_)
WordsOf(n) == IF n = 0 THEN {<<>>} ELSE LET W == WordsOf(n - 1) IN W \cup {Append(w, c) : w \in W, c \in Sigma}
Words == WordsOf(WordLen)

Ranges == {TRng(a, b) : a, b \in Sigma} \cap {[k |-> "rng", lo |-> a, hi |-> b] : a \in Sigma, b \in Sigma}
LoopRanges == {<<0, 0>>, <<0, 1>>, <<1, 1>>, <<0, 2>>, <<1, 2>>, <<2, 2>>, <<2, 3>>, <<0, -1>>, <<1, -1>>, <<2, -1>>}

D0 == {TNone, TEps, TStr(<<0, MaxChar>>)} \cup {r \in Ranges : r.lo <= r.hi}
Unary(S)     == {TNot(a) : a \in S} \cup {TLoop(a, r[1], r[2]) : a \in S, r \in LoopRanges}
                \cup {TQuot(c, a) : c \in Sigma, a \in S}
Binary(S, T) == {TCat(a, b) : a \in S, b \in T} \cup {TAlt(<<a, b>>) : a \in S, b \in T}
                \cup {TAnd(<<a, b>>) : a \in S, b \in T}
D1 == D0 \cup Unary(D0) \cup Binary(D0, D0)
(* Depth-2 terms are decoded from an index (no large set is materialised):                  *)
(*   unary operators over D1, binary operators over D1 x D1 (Full) or D1 x D0 and D0 x D1,   *)
(*   and two ternary families over D0.                                                       *)
S0 == SetToSeq(D0)   N0 == Len(S0)
S1 == SetToSeq(D1)   N1 == Len(S1)
LR == SetToSeq(LoopRanges)
NUn == 1 + Len(LR) + (MaxChar + 1)                 \* not, loops, quotients
UnaryAt(a, k) == IF k = 0 THEN TNot(a)
                 ELSE IF k <= Len(LR) THEN TLoop(a, LR[k][1], LR[k][2])
                 ELSE TQuot(k - Len(LR) - 1, a)
BinAt(op, a, b) == IF op = 0 THEN TCat(a, b) ELSE IF op = 1 THEN TAlt(<<a, b>>) ELSE TAnd(<<a, b>>)
NA == N1                                            \* depth <= 1
NB == N1 * NUn                                      \* unary over D1
NC == IF Full THEN 3 * N1 * N1 ELSE 3 * 2 * N1 * N0 \* binary
ND == 2 * N0 * N0 * N0                              \* ternary over D0
NT == NA + NB + NC + ND
TermAt(n) ==
  IF n < NA THEN S1[n + 1]
  ELSE IF n < NA + NB THEN LET m == n - NA IN UnaryAt(S1[(m \div NUn) + 1], m % NUn)
  ELSE IF n < NA + NB + NC THEN
       LET m == n - NA - NB IN
       IF Full THEN LET op == m \div (N1 * N1) r == m % (N1 * N1) IN BinAt(op, S1[(r \div N1) + 1], S1[(r % N1) + 1])
       ELSE LET op == m \div (2 * N1 * N0) r == m % (2 * N1 * N0)
                side == r \div (N1 * N0) q == r % (N1 * N0)
                x == S1[(q \div N0) + 1] y == S0[(q % N0) + 1]
            IN IF side = 0 THEN BinAt(op, x, y) ELSE BinAt(op, y, x)
  ELSE LET m == n - NA - NB - NC
           fam == m \div (N0 * N0 * N0) r == m % (N0 * N0 * N0)
           a == S0[(r \div (N0 * N0)) + 1] b == S0[((r \div N0) % N0) + 1] c == S0[(r % N0) + 1]
       IN IF fam = 0 THEN TAlt(<<a, b, c>>) ELSE TAnd(<<a, TNot(b), c>>)

VARIABLE l
K == 64
Init == l \in 0..K - 1
Agree(t) == \A w \in Words : Matches(t, w) = Accepts(t, w)
(* exact emptiness (closure over region representatives) vs search over short words: *)
(* a word found => NonEmpty; NonEmpty with few residual states => a short word exists *)
EmptinessOk(t) == LET ne == NonEmpty(t) IN
                  /\ (\E w \in Words : Matches(t, w)) => ne
                  /\ (ne /\ Cardinality(ReachFrom(t, TermReps(t), RInit(t))) <= WordLen + 1) => \E w \in Words : Matches(t, w)
(* leftmost-shortest search vs the SMT-LIB clause on Matches: over all subjects of length <= 3 *)
Subjects == WordsOf(3)
ReplaceOk(t) ==
  \A s \in Subjects :
     LET cands == {p \in (0..Len(s)) \X (0..Len(s)) : p[1] <= p[2] /\ Matches(t, SubSeq(s, p[1] + 1, p[2]))}
         best  == CHOOSE p \in cands : \A o \in cands : p[1] < o[1] \/ (p[1] = o[1] /\ p[2] <= o[2])
         m     == LeftmostFrom(t, s, 0, 0)
     IN IF cands = {} THEN m = <<-1, -1>> ELSE m = best
Judge(t) == IF Agree(t) /\ EmptinessOk(t) /\ ReplaceOk(t) THEN TRUE ELSE PrintT(<<"SPECBUG", t>>) /\ FALSE
Next == l < NT /\ Judge(TermAt(l)) /\ l' = l + K

(* SMT-LIB's literal definitions of the derived constructors vs Core's loop-range shortcuts *)
SameOnWords(a, b) == \A w \in Words : Matches(a, w) = Matches(b, w)
DerivedOk ==
  \A a \in D1 :
    /\ SameOnWords(Core([k |-> "plus", a |-> a]), TCat(a, TLoop(a, 0, -1)))
    /\ SameOnWords(Core([k |-> "opt", a |-> a]), TAlt(<<TEps, a>>))
    /\ SameOnWords(TLoop(a, 0, -1), TAlt(<<TEps, TCat(a, TLoop(a, 0, -1))>>))
    /\ SameOnWords(TLoop(a, 2, 2), TCat(a, a))
    /\ SameOnWords(TLoop(a, 1, 3), TAlt(<<a, TCat(a, a), TCat(a, TCat(a, a))>>))
    /\ SameOnWords(TLoop(a, 0, 0), TEps)
ASSUME DerivedOk
Done == TLCGet("stats").distinct = NT + K
=============================================================================

------------------------- MODULE Trace_Constructors -------------------------
(***************************************************************************)
(* One-step conformance of the real constructors and of the real           *)
(* derivative with the model of module Constructors.                       *)
(*                                                                         *)
(* The harness reads the syntax tree of real terms through the accessor    *)
(* hooks (RE::verif_expr, LoopRange::verif_bounds) and logs, for every     *)
(* constructor call it makes, the trees of the arguments and of the result *)
(* ("ctor"), and for derivatives the tree of the term, the character, the  *)
(* trees of the REAL derivatives of the immediate sub-terms and the tree   *)
(* of the result ("dstep": one level of compute_derivative; the sub-terms' *)
(* own derivatives are judged by their own records).                       *)
(*                                                                         *)
(* Two kinds of obligations:                                               *)
(*  - semantic (property C01 / C03): the language of the result is the     *)
(*    SMT-LIB meaning of the operation applied to the languages of the     *)
(*    arguments - exact (inclusion both ways on the residual automata), on *)
(*    the REAL argument terms, whatever history produced them;             *)
(*  - structural (RULES:...): the result is the tree the model's rule set  *)
(*    yields, and it is in normal form.  These describe HOW the crate      *)
(*    normalises, which no listed property fixes: a divergence is reported *)
(*    as a NOTE (the model no longer transcribes the code), not as a       *)
(*    violation.                                                           *)
(***************************************************************************)
EXTENDS TraceBase, Constructors

Args(e) == [i \in 1..Len(e.args) |-> Cn(e.args[i])]

(* the model's result: <<"is", term>> or <<"union", frame>> *)
Model(f, a, n) ==
  CASE f = "concat"      -> <<"is", MkCat(a[1], a[2])>>
    [] f = "concat_list" -> <<"is", MkCatList(a)>>
    [] f = "mk_loop"     -> <<"is", MkLoop(a[1], <<n[1], n[2]>>)>>
    [] f = "star"        -> <<"is", MkLoop(a[1], <<0, -1>>)>>
    [] f = "plus"        -> <<"is", MkLoop(a[1], <<1, -1>>)>>
    [] f = "opt"         -> <<"is", MkLoop(a[1], <<0, 1>>)>>
    [] f = "exp"         -> <<"is", MkLoop(a[1], <<n[1], n[1]>>)>>
    [] f = "smt_loop"    -> <<"is", IF n[1] <= n[2] THEN MkLoop(a[1], <<n[1], n[2]>>) ELSE NNone>>
    [] f = "complement"  -> <<"is", MkNot(a[1])>>
    [] f \in {"inter", "inter_list"} -> <<"is", MkInter(a)>>
    [] f = "diff"        -> <<"is", MkDiff(a[1], <<a[2]>>)>>
    [] f = "diff_list"   -> <<"is", MkDiff(a[1], Tail(a))>>
    [] f \in {"union", "union_list"} -> <<"union", UnionFrame(a)>>
    [] f = "str"         -> <<"is", MkStr(n, 1)>>
    [] f = "char"        -> <<"is", NRng(n[1], n[1])>>
    [] f = "range"       -> <<"is", NRng(n[1], n[2])>>
    [] f = "all_chars"   -> <<"is", NSigma>>
    [] f = "empty"       -> <<"is", NNone>>
    [] f = "epsilon"     -> <<"is", NEps>>
    [] f = "full"        -> <<"is", NAllT>>
    [] f = "sigma_plus"  -> <<"is", NSigmaPlus>>

(* the SMT-LIB meaning of the call, as a kernel term over the kernel forms of the REAL arguments *)
Meaning(f, a, n) ==
  LET k == [i \in 1..Len(a) |-> Ke(a[i])] IN
  CASE f = "concat"      -> TCat(k[1], k[2])
    [] f = "concat_list" -> Core([k |-> "cat", xs |-> k])
    [] f = "mk_loop"     -> TLoop(k[1], n[1], n[2])
    [] f = "star"        -> TLoop(k[1], 0, -1)
    [] f = "plus"        -> TLoop(k[1], 1, -1)
    [] f = "opt"         -> TLoop(k[1], 0, 1)
    [] f = "exp"         -> TLoop(k[1], n[1], n[1])
    [] f = "smt_loop"    -> IF n[1] <= n[2] THEN TLoop(k[1], n[1], n[2]) ELSE TNone
    [] f = "complement"  -> TNot(k[1])
    [] f \in {"inter", "inter_list"} -> IF Len(k) = 0 THEN TAll ELSE TAnd(k)
    [] f \in {"diff", "diff_list"} -> TAnd(<<k[1]>> \o [i \in 1..Len(k) - 1 |-> TNot(k[i + 1])])
    [] f \in {"union", "union_list"} -> IF Len(k) = 0 THEN TNone ELSE TAlt(k)
    [] f = "str"         -> TStr(n)
    [] f = "char"        -> TRng(n[1], n[1])
    [] f = "range"       -> TRng(n[1], n[2])
    [] f = "all_chars"   -> TRng(0, MaxChar)
    [] f = "empty"       -> TNone
    [] f = "epsilon"     -> TEps
    [] f = "full"        -> TAll
    [] f = "sigma_plus"  -> TLoop(TRng(0, MaxChar), 1, -1)

Conforms(res, m) == IF m[1] = "is" THEN res = m[2] ELSE UnionShapeOk(res, m[2])

Bad(e) ==
  CASE e.op = "panic" -> {e.where}
    [] e.op = "ctor" ->
         LET a   == Args(e)
             res == Cn(e.res)
         IN Failed({<<"RULES:constructor_result_as_modelled", Conforms(res, Model(e.f, a, e.ints))>>,
                    <<"RULES:normal_form", WfN(res)>>,
                    <<"RULES:nullable_flag_as_modelled", e.nullable = NulN(res)>>,
                    <<"RULES:derivative_classes_as_modelled", {<<e.cls[j][1], e.cls[j][2]>> : j \in 1..Len(e.cls)} = ClassesN(res)>>,
                    <<"C01:constructor_step_language", e.sem => Equiv(Ke(res), Meaning(e.f, a, e.ints))>>,
                    <<"C01:nullable", e.sem => e.nullable = Nullable(Ke(res))>>})
    [] e.op = "dstep" ->
         LET t   == Cn(e.e)
             sub == [i \in 1..Len(e.subs) |-> Cn(e.subs[i])]
             res == Cn(e.res)
             m   == DerivStep(t, e.c,
                              IF Len(sub) >= 1 THEN sub[1] ELSE NNone,
                              IF Len(sub) >= 2 THEN sub[2] ELSE NNone,
                              {sub[i] : i \in 1..Len(sub)})
         IN Failed({<<"RULES:derivative_step_as_modelled", Conforms(res, m)>>,
                    <<"RULES:normal_form", WfN(res)>>,
                    <<"C03:char_derivative", e.sem => Equiv(Ke(res), TQuot(e.c, Ke(t)))>>})
    [] OTHER -> {"unknown_event"}

Init == TInit
Next == TNext(Bad)
=============================================================================

----------------------------- MODULE RefineLemma -----------------------------
(***************************************************************************)
(* The safety half of partition refinement (Hopcroft.tla, minimizer.rs),   *)
(* for automata of ANY size (TLAPS): a partition that never separates two  *)
(* equivalent states still does not after every block has been split by    *)
(* the predecessor class of a block under a letter - whatever block and    *)
(* letter are picked, in whatever order.  "Equivalent" is any relation     *)
(* that is preserved by the transition function (in particular the Nerode  *)
(* equivalence); the initial partition {F, Q \ F} qualifies when           *)
(* equivalent states agree on finality.  MC_Hopcroft checks the same (and  *)
(* that the refinement ends in the Nerode partition) on small automata.    *)
(***************************************************************************)
EXTENDS TLAPS

CONSTANTS Q,          \* states
          Sigma,      \* letters
          delta,      \* transition function: delta[q][c] \in Q
          Eq(_, _),   \* the equivalence on states
          F           \* final states

ASSUME Total == \A q \in Q : \A c \in Sigma : delta[q][c] \in Q
ASSUME Cong  == \A p, q \in Q : Eq(p, q) => \A c \in Sigma : Eq(delta[p][c], delta[q][c])
ASSUME Final == \A p, q \in Q : Eq(p, q) => (p \in F <=> q \in F)

\* a partition as a labelling of the states; blocks = states with the same label
NeverSeparates(blk) == \A p, q \in Q : Eq(p, q) => blk[p] = blk[q]

\* predecessors, under letter c, of the block labelled b
Pred(blk, b, c) == {q \in Q : blk[delta[q][c]] = b}
\* split every block by that class
Refine(blk, b, c) == [q \in Q |-> <<blk[q], q \in Pred(blk, b, c)>>]

THEOREM InitialPartition == NeverSeparates([q \in Q |-> q \in F])
  BY Final DEF NeverSeparates

THEOREM RefinementStep ==
  ASSUME NEW blk, NeverSeparates(blk), NEW b, NEW c \in Sigma
  PROVE  NeverSeparates(Refine(blk, b, c))
  <1> SUFFICES ASSUME NEW p \in Q, NEW q \in Q, Eq(p, q)
               PROVE  Refine(blk, b, c)[p] = Refine(blk, b, c)[q]
      BY DEF NeverSeparates
  <1>1. blk[p] = blk[q]
        BY DEF NeverSeparates
  <1>2. delta[p][c] \in Q /\ delta[q][c] \in Q /\ Eq(delta[p][c], delta[q][c])
        BY Total, Cong
  <1>3. blk[delta[p][c]] = blk[delta[q][c]]
        BY <1>2 DEF NeverSeparates
  <1>4. (p \in Pred(blk, b, c)) <=> (q \in Pred(blk, b, c))
        BY <1>3 DEF Pred
  <1> QED BY <1>1, <1>4 DEF Refine

\* splitting only ONE block (as the implementation does, block by block) is a coarsening of Refine: also safe
RefineOne(blk, b, c, target) == [q \in Q |-> IF blk[q] = target THEN <<blk[q], q \in Pred(blk, b, c)>> ELSE <<blk[q], FALSE>>]
THEOREM RefinementStepOneBlock ==
  ASSUME NEW blk, NeverSeparates(blk), NEW b, NEW c \in Sigma, NEW target
  PROVE  NeverSeparates(RefineOne(blk, b, c, target))
  <1> SUFFICES ASSUME NEW p \in Q, NEW q \in Q, Eq(p, q)
               PROVE  RefineOne(blk, b, c, target)[p] = RefineOne(blk, b, c, target)[q]
      BY DEF NeverSeparates
  <1>1. blk[p] = blk[q]
        BY DEF NeverSeparates
  <1>2. delta[p][c] \in Q /\ delta[q][c] \in Q /\ Eq(delta[p][c], delta[q][c])
        BY Total, Cong
  <1>3. blk[delta[p][c]] = blk[delta[q][c]]
        BY <1>2 DEF NeverSeparates
  <1>4. (p \in Pred(blk, b, c)) <=> (q \in Pred(blk, b, c))
        BY <1>3 DEF Pred
  <1> QED BY <1>1, <1>4 DEF RefineOne
=============================================================================

------------------------------ MODULE Hopcroft ------------------------------
(***************************************************************************)
(* Hopcroft's partition refinement as implemented by minimizer.rs, one     *)
(* action per refinement round.                                            *)
(*                                                                         *)
(* d = [final, delta] : states 1..n, letters 1..m, d.delta[s][c].          *)
(* State of the machine: P = the set of blocks (a partition of the states) *)
(* and W = the ACTIVE splitters, pairs <<B, c>> with B a block of P.       *)
(* Only splitters with a non-empty predecessor set exist at all.           *)
(*                                                                         *)
(*  Init   P = {F, S \ F} (non-empty ones); if both are non-empty, for      *)
(*         every letter c whose predecessor set is non-empty on both sides  *)
(*         at least one of <<F,c>>, <<S\F,c>> is active (either choice is    *)
(*         sound; the crate takes the one with fewer predecessors); with     *)
(*         predecessors on one side only that side may or may not be active. *)
(*  Round  pick an active <<B,c>>, deactivate it; X = pred(B,c);            *)
(*         every block D with |D| > 1 that X cuts properly is replaced by   *)
(*         D \cap X and D \ X (B itself last: X refers to the B picked);     *)
(*         for a split block D and a letter a:                               *)
(*           <<D,a>> active   -> both halves (with predecessors) active      *)
(*           <<D,a>> inactive -> at least one half becomes active if both    *)
(*                               have predecessors (activating more is sound)*)
(*  Stop   when no splitter is active (or all blocks are singletons).       *)
(*                                                                         *)
(* Correctness (MC_Hopcroft, all DFAs with <= 3 states over 2 letters and   *)
(* every resolution of the nondeterminism): at termination P is the set of  *)
(* Myhill-Nerode classes; throughout, equivalent states are never           *)
(* separated and P refines {F, S \ F}.                                      *)
(***************************************************************************)
EXTENDS Integers, Sequences, FiniteSets

NStates(d)  == Len(d.final)
HStates(d)  == 1..Len(d.final)
HLetters(d) == 1..Len(d.delta[1])
Finals(d)   == {s \in HStates(d) : d.final[s]}
Pred(d, B, c) == {s \in HStates(d) : d.delta[s][c] \in B}

IsPartition(d, P) == /\ UNION P = HStates(d) /\ {} \notin P
                     /\ \A B, D \in P : B # D => B \cap D = {}
BlockOf(P, s) == CHOOSE B \in P : s \in B

InitP(d) == {Finals(d), HStates(d) \ Finals(d)} \ {{}}
\* allowed initial active sets
InitWOk(d, W) ==
  LET F == Finals(d) N == HStates(d) \ Finals(d) IN
  IF F = {} \/ N = {} THEN W = {}
  ELSE /\ W \subseteq {<<B, c>> : B \in {F, N}, c \in HLetters(d)}
       /\ \A c \in HLetters(d) :
            LET pf == Pred(d, F, c) # {} pn == Pred(d, N, c) # {} IN
            /\ (<<F, c>> \in W => pf) /\ (<<N, c>> \in W => pn)
            /\ (pf /\ pn) => (<<F, c>> \in W \/ <<N, c>> \in W)       \* at least one (one suffices; both is sound)

\* the refinement of P by the splitter <<B, c>>
SplitBlocks(d, P, B, c) == LET X == Pred(d, B, c) IN
                           {D \in P : Cardinality(D) > 1 /\ D \cap X # {} /\ D \ X # {}}
Refined(d, P, B, c) == LET X == Pred(d, B, c) S == SplitBlocks(d, P, B, c) IN
                       (P \ S) \cup {D \cap X : D \in S} \cup {D \ X : D \in S}

\* is W2 an allowed active set after picking <<B,c>> in (P, W)?
RoundWOk(d, P, W, B, c, W2) ==
  LET W0 == W \ {<<B, c>>}
      X  == Pred(d, B, c)
      S  == SplitBlocks(d, P, B, c)
      P2 == Refined(d, P, B, c)
  IN /\ W2 \subseteq {<<E, a>> : E \in P2, a \in HLetters(d)}
     /\ \A sp \in W2 : Pred(d, sp[1], sp[2]) # {}
     \* unsplit blocks keep their status
     /\ \A E \in P \ S : \A a \in HLetters(d) : (<<E, a>> \in W2) = (<<E, a>> \in W0)
     /\ \A D \in S : \A a \in HLetters(d) :
          LET D1 == D \cap X D2 == D \ X
              p1 == Pred(d, D1, a) # {} p2 == Pred(d, D2, a) # {} IN
          IF <<D, a>> \in W0
          THEN (p1 => <<D1, a>> \in W2) /\ (p2 => <<D2, a>> \in W2)
          ELSE (p1 /\ p2) => (<<D1, a>> \in W2 \/ <<D2, a>> \in W2)       \* at least one half (both is sound too)

(* one round as a relation between logged snapshots *)
RoundOk(d, P, W, B, c, P2, W2) ==
  /\ <<B, c>> \in W /\ B \in P
  /\ P2 = Refined(d, P, B, c)
  /\ RoundWOk(d, P, W, B, c, W2)

AllSingletons(P) == \A B \in P : Cardinality(B) = 1
=============================================================================

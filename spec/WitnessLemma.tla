---------------------------- MODULE WitnessLemma ----------------------------
(***************************************************************************)
(* CharPartition keeps a "complement witness" w.  The invariant behind     *)
(* empty_complement, num_classes, class_ids and picks (C11) is             *)
(*      W(P, w):  every character below w is covered by an interval of P   *)
(*                and w itself is not  (w = MaxChar + 1: nothing is left)  *)
(* i.e. w is the LEAST uncovered character.  new(), from_set() establish   *)
(* it and push() preserves it - proved here for all partitions and all     *)
(* alphabet sizes (TLAPS).  The proof of the push step uses minimality:    *)
(* with a witness that is merely SOME uncovered character the update       *)
(* `if start <= w then w := end + 1` can skip an uncovered gap (seeded     *)
(* change T7: try_from_iter leaving a non-minimal witness, then pushes).   *)
(* P is a set of intervals <<lo, hi>> of naturals.                         *)
(***************************************************************************)
EXTENDS Integers, TLAPS

CONSTANT MaxChar
ASSUME MaxCharNat == MaxChar \in Nat

IsIv(c)      == c[1] \in Nat /\ c[2] \in Nat /\ c[1] <= c[2] /\ c[2] <= MaxChar
Mem(c, x)    == c[1] <= x /\ x <= c[2]
InSome(P, x) == \E c \in P : Mem(c, x)
W(P, w)      == /\ w \in Nat /\ w <= MaxChar + 1
                /\ \A x \in Nat : x < w => InSome(P, x)
                /\ ~InSome(P, w)
\* push(c) is only called with c above every interval already present (documented precondition)
PushPre(P, c) == IsIv(c) /\ \A d \in P : d[2] < c[1]
PushW(w, c)   == IF c[1] <= w THEN c[2] + 1 ELSE w

THEOREM NewEstablishes == W({}, 0)
  BY MaxCharNat DEF W, InSome

THEOREM FromSetEstablishes ==
  ASSUME NEW c, IsIv(c)
  PROVE  W({c}, IF c[1] > 0 THEN 0 ELSE c[2] + 1)
  BY MaxCharNat DEF W, InSome, Mem, IsIv

THEOREM PushPreserves ==
  ASSUME NEW P, NEW w, NEW c, \A d \in P : IsIv(d), W(P, w), PushPre(P, c)
  PROVE  W(P \cup {c}, PushW(w, c))
  <1>1. CASE c[1] <= w
        \* then c starts exactly at w: the characters c[1] .. w-1 would have to be covered by intervals below c[1]
        <2>1. c[1] = w
              <3>1. SUFFICES ASSUME c[1] < w PROVE FALSE
                    BY <1>1 DEF PushPre, IsIv, W
              <3>2. c[1] \in Nat /\ InSome(P, c[1])
                    BY <3>1 DEF W, PushPre, IsIv
              <3>3. PICK d \in P : Mem(d, c[1])
                    BY <3>2 DEF InSome
              <3> QED BY <3>3 DEF PushPre, Mem, IsIv
        <2>2. PushW(w, c) = c[2] + 1 /\ c[2] + 1 \in Nat /\ c[2] + 1 <= MaxChar + 1
              BY <1>1, MaxCharNat DEF PushW, PushPre, IsIv
        <2>3. \A x \in Nat : x < c[2] + 1 => InSome(P \cup {c}, x)
              <3> SUFFICES ASSUME NEW x \in Nat, x < c[2] + 1 PROVE InSome(P \cup {c}, x)
                  OBVIOUS
              <3>1. CASE x < w
                    BY <3>1 DEF W, InSome
              <3>2. CASE ~(x < w)
                    <4>1. Mem(c, x)
                          BY <3>2, <2>1 DEF Mem, W, PushPre, IsIv
                    <4> QED BY <4>1 DEF InSome
              <3> QED BY <3>1, <3>2
        <2>4. ~InSome(P \cup {c}, c[2] + 1)
              BY DEF InSome, Mem, PushPre, IsIv
        <2> QED BY <2>2, <2>3, <2>4 DEF W
  <1>2. CASE ~(c[1] <= w)
        <2>1. PushW(w, c) = w
              BY <1>2 DEF PushW
        <2>2. \A x \in Nat : x < w => InSome(P \cup {c}, x)
              BY DEF W, InSome
        <2>3. ~InSome(P \cup {c}, w)
              BY <1>2 DEF W, InSome, Mem, PushPre, IsIv
        <2> QED BY <2>1, <2>2, <2>3 DEF W
  <1> QED BY <1>1, <1>2

(* what the observers compute from the witness *)
THEOREM EmptyComplementIffWitnessPastEnd ==
  ASSUME NEW P, NEW w, W(P, w)
  PROVE  (w = MaxChar + 1) <=> \A x \in Nat : x <= MaxChar => InSome(P, x)
  BY MaxCharNat DEF W
=============================================================================

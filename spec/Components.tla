----------------------------- MODULE Components -----------------------------
(***************************************************************************)
(* The private building blocks of the crate as small state machines, each  *)
(* given by its abstract state, the effect of every operation and the      *)
(* value it returns.  An operation is a record [op, x, y, l]; a run is a   *)
(* sequence of operations; `XxxRun(ops)` is the sequence of <<state,       *)
(* result>> pairs after each operation.  The validator compares what the   *)
(* real object returned / exposed after EVERY operation.                   *)
(*                                                                         *)
(*  FastSet (fast_sets.rs)      state: a subset of 0..max-1                *)
(*  BfsQueue (bfs_queues.rs)    state: <<queue, seen>>                     *)
(*  LabeledQueue (labeled_queues.rs) state: <<queue, pred>> where pred maps *)
(*      each node seen to <<>> (root) or <<label, predecessor>>            *)
(*  CompactTable (compact_tables.rs) a total function given by defaults    *)
(*      and exceptions                                                     *)
(*  Partition (partitions.rs)   state: sequence of blocks (sets), block 0  *)
(*      is the empty sentinel; refine_block splits a block by a predicate  *)
(***************************************************************************)
EXTENDS Integers, Sequences, FiniteSets

NoRes == -1

(* ---- FastSet ---- *)
FsStep(S, o) ==
  CASE o.op = "insert" -> <<S \cup {o.x}, NoRes>>
    [] o.op = "remove" -> <<S \ {o.x}, NoRes>>
    [] o.op = "reset"  -> <<{}, NoRes>>
    [] o.op = "contains" -> <<S, IF o.x \in S THEN 1 ELSE 0>>
    [] OTHER -> <<S, NoRes>>

(* ---- BfsQueue: push returns 1 iff the element is new; pop returns the oldest element or -1 ---- *)
BqStep(st, o) ==
  LET q == st[1] seen == st[2] IN
  CASE o.op = "push" -> IF o.x \in seen THEN <<st, 0>> ELSE <<<<Append(q, o.x), seen \cup {o.x}>>, 1>>
    [] o.op = "pop"  -> IF q = <<>> THEN <<st, -1>> ELSE <<<<Tail(q), seen>>, Head(q)>>
    [] OTHER -> <<st, NoRes>>

(* ---- LabeledQueue ---- *)
LqInit(root) == <<<<root>>, [n \in {root} |-> <<>>]>>
LqStep(st, o) ==
  LET q == st[1] pred == st[2] IN
  CASE o.op = "push" -> IF o.y \in DOMAIN pred THEN <<st, 0>>
                        ELSE <<<<Append(q, o.y), [n \in DOMAIN pred \cup {o.y} |-> IF n = o.y THEN <<o.l, o.x>> ELSE pred[n]]>>, 1>>
    [] o.op = "pop"  -> IF q = <<>> THEN <<st, -1>> ELSE <<<<Tail(q), pred>>, Head(q)>>
    [] OTHER -> <<st, NoRes>>
\* labels on the recorded path from the root to node n (n must have been seen)
RECURSIVE LqPath(_, _)
LqPath(pred, n) == IF pred[n] = <<>> THEN <<>> ELSE Append(LqPath(pred, pred[n][2]), pred[n][1])

(* ---- generic fold: sequence of <<state, result>> after each operation ---- *)
RECURSIVE RunFrom(_, _, _, _)
RunFrom(Step(_, _), st, ops, k) ==
  IF k > Len(ops) THEN <<>>
  ELSE LET r == Step(st, ops[k]) IN <<r>> \o RunFrom(Step, r[1], ops, k + 1)

(* ---- CompactTable: eval(s, c) = the exception given for (s, c), else the default of s ---- *)
\* tbl = [n, m, dflt (seq of n), exc (seq of n seqs of <<c, v>>)]
CtEval(tbl, s, c) ==
  LET hits == {k \in 1..Len(tbl.exc[s + 1]) : tbl.exc[s + 1][k][1] = c} IN
  IF hits = {} THEN tbl.dflt[s + 1] ELSE tbl.exc[s + 1][CHOOSE k \in hits : TRUE][2]

(* ---- Partition: refine block i (1-based id) by the set X: <<kept id, new id>> with 0 for an empty half ---- *)
\* blocks: sequence of sets of elements; ids are positions (block 0 = empty sentinel is implicit)
PtRefine(blocks, i, X) ==
  LET B == blocks[i] B1 == B \cap X B2 == B \ X IN
  IF B1 = {} THEN <<blocks, <<0, i>>>>
  ELSE IF B2 = {} THEN <<blocks, <<i, 0>>>>
  ELSE <<Append([blocks EXCEPT ![i] = B1], B2), <<i, Len(blocks) + 1>>>>
=============================================================================

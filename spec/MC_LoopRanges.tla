---------------------------- MODULE MC_LoopRanges ----------------------------
(* U1 for LoopRanges on all ranges with parameters <= MaxP:                  *)
(*  - the closed forms satisfy the set obligations;                          *)
(*  - the window argument: doubling the window changes no verdict;           *)
(*  - the gap criterion used by mk_loop's flattening rule (ExactCF) is       *)
(*    equivalent to "the union of the y-fold sums is the product interval".  *)
EXTENDS LoopRanges, TLC

CONSTANT MaxP
Ranges == {p \in (0..MaxP) \X (0..MaxP) : p[1] <= p[2]} \cup {<<a, -1>> : a \in 0..MaxP}

VARIABLES r, s, k, ph
Init == r \in Ranges /\ s \in Ranges /\ k \in 0..MaxP /\ ph = 0
Next == ph = 0 /\ ph' = 1 /\ UNCHANGED <<r, s, k>>

ClosedForms == ph = 0 \/
  /\ ObAdd(r, s, AddCF(r, s))
  /\ ObScale(r, k, ScaleCF(r, k))
  /\ ObShift(r, ShiftCF(r))
  /\ ObIncludes(r, s, IncludesCF(r, s))
  /\ ObMul(r, s, MulCF(r, s))
  /\ ObExact(r, s, MulCF(r, s), ExactCF(r, s))

WindowStable == ph = 0 \/
  LET W == ExactW(r, s) m == MulCF(r, s) IN IsExact(r, s, m, W) = IsExact(r, s, m, 2 * W)

(* the obligations discriminate: a wrong result is rejected *)
Discriminates == ph = 0 \/
  /\ \A x \in Ranges : ObAdd(r, s, x) => x = AddCF(r, s)
  /\ \A x \in Ranges : ObShift(r, x) => x = ShiftCF(r)
  /\ \A x \in Ranges : ObScale(r, k, x) => (x = ScaleCF(r, k))
=============================================================================

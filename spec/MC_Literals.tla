---------------------------- MODULE MC_Literals ----------------------------
(* U1 for Literals: the operational parser equals the grammar-level decoder *)
(* on every text of length <= TextLen over the critical symbols, and on the  *)
(* escape-attempt family (0..AttemptDigits digits, with and without braces,  *)
(* around the 0x2FFFF limit, in small contexts; braces at every position of   *)
(* an attempt).  Texts are decoded from an                                    *)
(* index so that no large set is ever materialised.                          *)
EXTENDS Literals, TLC

CONSTANTS TextLen, AttemptDigits

Sym == <<92, 117, 123, 125, 48, 51, 102, 103>>       \* \ u { } 0 3 f g ; digit 8 = blank (dropped)
RECURSIVE Pow(_, _), FromIndex(_, _, _, _)
Pow(b, n) == IF n = 0 THEN 1 ELSE b * Pow(b, n - 1)
\* the positions of n in base (Len(alpha)+1), blanks dropped
FromIndex(n, len, alpha, acc) ==
  IF len = 0 THEN acc
  ELSE LET d == n % (Len(alpha) + 1) IN
       FromIndex(n \div (Len(alpha) + 1), len - 1, alpha, IF d = Len(alpha) THEN acc ELSE <<alpha[d + 1]>> \o acc)
NTexts == Pow(9, TextLen)
Text(n) == FromIndex(n, TextLen, Sym, <<>>)

Digits == <<48, 50, 51, 70>>                          \* 0 2 3 F
Ctx == <<<<>>, <<92>>, <<48>>>>
NDig == Pow(5, AttemptDigits)
NAttempts == 3 * 2 * NDig * 2 * 3
Attempt(n) ==
  LET pre   == Ctx[(n % 3) + 1]                 n1 == n \div 3
      open  == IF n1 % 2 = 0 THEN <<>> ELSE <<123>>   n2 == n1 \div 2
      ds    == FromIndex(n2 % NDig, AttemptDigits, Digits, <<>>)   n3 == n2 \div NDig
      close == IF n3 % 2 = 0 THEN <<>> ELSE <<125>>   n4 == n3 \div 2
      post  == Ctx[(n4 % 3) + 1]
  IN pre \o <<92, 117>> \o open \o ds \o close \o post

\* braces at every position of an attempt: \u D1 { D2 } D3 for every split of a digit string of length <= 4
SplitDigits == <<48, 52, 70>>                         \* 0 4 F
NSplit == Pow(4, 4) * 25
Min2(x, y) == IF x < y THEN x ELSE y
Max2(x, y) == IF x < y THEN y ELSE x
Split(n) ==
  LET ds == FromIndex(n % 256, 4, SplitDigits, <<>>)   n1 == n \div 256
      i  == Min2(n1 % 5, Len(ds))
      j  == Max2(i, Min2(n1 \div 5, Len(ds)))
  IN <<92, 117>> \o SubSeq(ds, 1, i) \o <<123>> \o SubSeq(ds, i + 1, j) \o <<125>> \o SubSeq(ds, j + 1, Len(ds))

Total == NTexts + NAttempts + NSplit
Case(n) == IF n < NTexts THEN Text(n) ELSE IF n < NTexts + NAttempts THEN Attempt(n - NTexts) ELSE Split(n - NTexts - NAttempts)

VARIABLE l
K == 64
Init == l \in 0..K - 1
Judge(x) == IF Parse(x) = Decode(x) THEN TRUE ELSE PrintT(<<"SPECBUG", x, Parse(x), Decode(x)>>) /\ FALSE
Next == l < Total /\ Judge(Case(l)) /\ l' = l + K
Done == TLCGet("stats").distinct = Total + K
=============================================================================

CONSTANT Keys = {"x", "y", "z", "u"}
INIT Init
NEXT Next
INVARIANT Injective
INVARIANT PositiveIdsEven
INVARIANT Involution
INVARIANT PairTestExact
INVARIANT NaiveTestUnsound
CHECK_DEADLOCK FALSE

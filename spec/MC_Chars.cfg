CONSTANT MaxChar = 4
INIT Init
NEXT Next
INVARIANT ClosedFormsOk
INVARIANT RegionLemma
CHECK_DEADLOCK FALSE

CONSTANTS MaxChar = 1  WordLen = 1  Full = FALSE
INIT InitS
NEXT NextS
CHECK_DEADLOCK FALSE
POSTCONDITION DoneS

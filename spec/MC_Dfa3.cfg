CONSTANTS MaxStates = 3  NLetters = 3
INIT Init
NEXT Next
INVARIANT DefinitionsAgree
CHECK_DEADLOCK FALSE

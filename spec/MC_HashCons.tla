---------------------------- MODULE MC_HashCons ----------------------------
(***************************************************************************)
(* The id scheme behind hash-consing (ReManager::new / make / complement,  *)
(* Store::make) as a state machine (U1 for C07):                           *)
(*   - a manager starts with six terms: all_chars 0, its complement 1,     *)
(*     none 2, all 3, eps 4, sigma_plus 5 -- (2,3) and (4,5) are           *)
(*     complementary LANGUAGES although 3 and 5 are loops, not Complement  *)
(*     nodes;                                                              *)
(*   - making a term whose key is in the table returns the recorded id and *)
(*     allocates nothing; a new key takes the next id k (always even) and  *)
(*     its complement takes k+1 at once;                                   *)
(*   - complement(x) is the term with id  x XOR 1.                          *)
(* Invariants: the table is injective; complement is an involution without *)
(* fixed points; and the test used by simplify_set_operation on a sorted   *)
(* operand list, "next.id = prev.id + 1 and prev.id is even", holds        *)
(* exactly for complementary pairs -- whereas without the parity condition *)
(* it would also fire on (complement of x, the term created right after x).*)
(***************************************************************************)
EXTENDS Integers, FiniteSets, TLC

CONSTANT Keys              \* abstract keys of non-complement terms that callers may construct
Predefined == {"all_chars", "none", "eps"}

VARIABLES table, counter   \* table: key -> id of the (positive) term; counter: next free id
Init == table = [k \in Predefined |-> CASE k = "all_chars" -> 0 [] k = "none" -> 2 [] k = "eps" -> 4] /\ counter = 6

Make(k) == IF k \in DOMAIN table THEN UNCHANGED <<table, counter>>          \* same construction, same term
           ELSE table' = [x \in DOMAIN table \cup {k} |-> IF x = k THEN counter ELSE table[x]] /\ counter' = counter + 2
Next == \E k \in Keys \cup Predefined : Make(k)

Ids == 0..(counter - 1)
Comp(i) == IF i % 2 = 0 THEN i + 1 ELSE i - 1                               \* id XOR 1
Injective == \A a, b \in DOMAIN table : a # b => table[a] # table[b]
PositiveIdsEven == \A k \in DOMAIN table : table[k] % 2 = 0 /\ table[k] < counter
Involution == \A i \in Ids : Comp(Comp(i)) = i /\ Comp(i) # i /\ Comp(i) \in Ids
PairTest(i, j) == j = i + 1 /\ i % 2 = 0
PairTestExact == \A i, j \in Ids : i < j => (PairTest(i, j) <=> j = Comp(i))
\* what goes wrong without the parity condition: a witness exists as soon as two terms were made
NaiveTestUnsound == counter >= 10 => \E i, j \in Ids : i < j /\ j = i + 1 /\ j # Comp(i)
=============================================================================

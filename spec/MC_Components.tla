---------------------------- MODULE MC_Components ----------------------------
(* U2 for Components: TLC enumerates operation sequences for each building   *)
(* block over a tiny universe and emits one JSON line per sequence; the       *)
(* harness executes them on the real private types (re-exported under the     *)
(* verification cfg) and logs the result / observable state after every       *)
(* operation; Trace_Components folds the specification over the same          *)
(* sequence and compares.  U1 invariants on the way: BFS driven through       *)
(* LabeledQueue visits exactly the reachable nodes and records shortest paths.*)
EXTENDS Components, TLC, Json

CONSTANTS U, MaxOps            \* universe 0..U-1, sequences of up to MaxOps operations

Univ == 0..(U - 1)
FsOps == [op : {"insert", "remove", "contains"}, x : Univ, y : {0}, l : {0}] \cup [op : {"reset"}, x : {0}, y : {0}, l : {0}]
BqOps == [op : {"push"}, x : Univ, y : {0}, l : {0}] \cup [op : {"pop"}, x : {0}, y : {0}, l : {0}]
LqOps == [op : {"push"}, x : Univ, y : Univ, l : {0, 1}] \cup [op : {"pop"}, x : {0}, y : {0}, l : {0}]

VARIABLES kind, ops, done
Init == kind \in {"fastset", "bfsqueue", "labeledqueue", "bfs", "table", "partition"} /\ ops = <<>> /\ done = FALSE

OpsOf(k) == CASE k = "fastset" -> FsOps [] k = "bfsqueue" -> BqOps [] k = "labeledqueue" -> LqOps [] OTHER -> {}
\* a LabeledQueue push must name a predecessor that has been seen (as the callers do)
LqSeen == {0} \cup {ops[i].y : i \in {i \in 1..Len(ops) : ops[i].op = "push"}}

(* graphs for the BFS driver: deterministic successor function over U nodes and 2 labels *)
Graphs == [Univ -> [0..1 -> Univ]]
(* tables: n states, m letters, defaults and a few exceptions *)
Tables == {[n |-> U, m |-> 2, dflt |-> d, exc |-> e] :
             d \in [1..U -> Univ], e \in [1..U -> {<<>>, <<<<0, 0>>>>, <<<<1, 1>>>>, <<<<0, 1>>, <<1, 0>>>>}]}
(* partition refinements: a sequence of (block id, predicate set) over elements 0..U *)
Elems == 0..U
PtOps == [i : 1..3, X : SUBSET Elems]

Next ==
  /\ ~done
  /\ \/ /\ kind \in {"fastset", "bfsqueue", "labeledqueue"} /\ Len(ops) < MaxOps
        /\ \E o \in OpsOf(kind) :
              /\ (kind = "labeledqueue" /\ o.op = "push") => o.x \in LqSeen
              /\ ops' = Append(ops, o)
        /\ UNCHANGED <<kind, done>>
     \/ /\ kind \in {"fastset", "bfsqueue", "labeledqueue"} /\ Len(ops) >= 1
        /\ PrintT(ToJson([kind |-> kind, ops |-> ops]))
        /\ done' = TRUE /\ UNCHANGED <<kind, ops>>
     \/ /\ kind = "bfs"
        /\ \A g \in Graphs : PrintT(ToJson([kind |-> "bfs", succ |-> [n \in 1..U |-> <<g[n - 1][0], g[n - 1][1]>>]]))
        /\ done' = TRUE /\ UNCHANGED <<kind, ops>>
     \/ /\ kind = "table"
        /\ \A t \in Tables : PrintT(ToJson([kind |-> "table", n |-> t.n, m |-> t.m, dflt |-> t.dflt, exc |-> t.exc]))
        /\ done' = TRUE /\ UNCHANGED <<kind, ops>>
     \/ /\ kind = "partition"
        /\ \A a \in PtOps, b \in PtOps :
              PrintT(ToJson([kind |-> "partition", n |-> U + 1,
                             steps |-> <<[i |-> a.i, X |-> a.X], [i |-> b.i, X |-> b.X]>>]))
        /\ done' = TRUE /\ UNCHANGED <<kind, ops>>

(* U1: BFS through the LabeledQueue specification reaches exactly the reachable nodes, by shortest paths *)
RECURSIVE Bfs(_, _)
Bfs(g, st) ==          \* run to completion: pop, push both successors
  IF st[1] = <<>> THEN st
  ELSE LET n == Head(st[1])
           s1 == LqStep(<<Tail(st[1]), st[2]>>, [op |-> "push", x |-> n, y |-> g[n][0], l |-> 0])[1]
           s2 == LqStep(s1, [op |-> "push", x |-> n, y |-> g[n][1], l |-> 1])[1]
       IN Bfs(g, s2)
RECURSIVE ReachG(_, _, _)
ReachG(g, fr, seen) == IF fr = {} THEN seen
                       ELSE LET nx == {g[n][l] : n \in fr, l \in 0..1} \ seen IN ReachG(g, nx, seen \cup nx)
RECURSIVE Walk(_, _, _)
Walk(g, n, path) == IF path = <<>> THEN n ELSE Walk(g, g[n][Head(path)], Tail(path))
BfsCorrect ==
  \A g \in Graphs :
     LET fin == Bfs(g, LqInit(0)) pred == fin[2] IN
     /\ DOMAIN pred = ReachG(g, {0}, {0})
     /\ \A n \in DOMAIN pred : Walk(g, 0, LqPath(pred, n)) = n
ASSUME BfsCorrect
=============================================================================

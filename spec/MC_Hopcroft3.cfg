CONSTANTS MaxStates = 3  NLetters = 3
INIT Init
NEXT Next
INVARIANT PartitionOk
INVARIANT NeverSeparatesEquivalent
INVARIANT EndsInNerode
INVARIANT ActiveAreBlocks
CHECK_DEADLOCK FALSE

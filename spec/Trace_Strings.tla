---------------------------- MODULE Trace_Strings ----------------------------
(* Validates the string traces of the real crate: C06 (SMT-LIB functions),   *)
(* C09 (order, conversions; one trace per build profile), C08 (literals),    *)
(* C17 (every string handed out is well formed).                             *)
EXTENDS TraceBase, SmtStrings, Literals

REPLACEMENT == 65533

BadF(e) ==
  LET f == e.f IN
  CASE f = "concat"   -> Failed({<<"C06:str_concat", ~e.panic /\ e.rs = Concat(e.s, e.t)>>, <<"C17:result_good", e.good>>})
    [] f = "len"      -> Failed({<<"C06:str_len", ~e.panic /\ e.ri = Length(e.s)>>})
    [] f = "at"       -> Failed({<<"C06:str_at", ~e.panic /\ e.rs = At(e.s, e.i)>>, <<"C17:result_good", e.good>>})
    [] f = "substr"   -> Failed({<<"C06:str_substr", ~e.panic /\ e.rs = Substr(e.s, e.i, e.n)>>, <<"C17:result_good", e.good>>})
    [] f = "prefixof" -> Failed({<<"C06:str_prefixof", ~e.panic /\ e.rb = PrefixOf(e.t, e.s)>>})
    [] f = "suffixof" -> Failed({<<"C06:str_suffixof", ~e.panic /\ e.rb = SuffixOf(e.t, e.s)>>})
    [] f = "contains" -> Failed({<<"C06:str_contains", ~e.panic /\ e.rb = Contains(e.s, e.t)>>})
    [] f = "indexof"  -> Failed({<<"C06:str_indexof", ~e.panic /\ e.ri = IndexOf(e.s, e.t, e.i)>>})
    [] f = "replace"  -> Failed({<<"C06:str_replace", ~e.panic /\ e.rs = Replace(e.s, e.t, e.u)>>, <<"C17:result_good", e.good>>})
    [] f = "replace_all" -> Failed({<<"C06:str_replace_all", ~e.panic /\ e.rs = ReplaceAll(e.s, e.t, e.u)>>, <<"C17:result_good", e.good>>})
    [] f = "lt"       -> Failed({<<"C09:str_lt", ~e.panic /\ e.rb = Lt(e.s, e.t)>>})
    [] f = "le"       -> Failed({<<"C09:str_le", ~e.panic /\ e.rb = Le(e.s, e.t)>>})
    [] f = "to_int"   -> LET v == ToInt(e.s) IN
                         \* the value, or the documented panic exactly when the value does not fit
                         Failed({<<"C09:str_to_int", IF v = -2 THEN e.panic ELSE (~e.panic /\ e.ri = v)>>})
    [] f = "is_digit" -> Failed({<<"C09:str_is_digit", ~e.panic /\ e.rb = IsDigit(e.s)>>})
    [] f = "to_code"  -> Failed({<<"C09:str_to_code", ~e.panic /\ e.ri = ToCode(e.s)>>})
    [] f = "from_code" -> Failed({<<"C09:str_from_code", ~e.panic /\ e.rs = FromCode(e.i)>>, <<"C17:result_good", e.good>>})
    [] f = "from_int" -> Failed({<<"C09:str_from_int", ~e.panic /\ e.rs = FromInt(e.i)>>,
                                 <<"C09:to_int_from_int", e.i >= 0 => (~e.back_panic /\ e.back = e.i)>>,
                                 <<"C17:result_good", e.good>>})
    [] OTHER -> {"unknown_function"}

BadCodes(e) ==
  Failed({<<"C09:to_code_from_code_roundtrip",
            \A k \in 1..Len(e.tc) : LET x == e.lo + k - 1 IN
                IF x <= MaxChar THEN e.tc[k] = x /\ e.fl[k] = 1 ELSE e.tc[k] = -1 /\ e.fl[k] = 0>>})

(* ---- C17 constructors ---- *)
BadCtor(e) ==
  LET charIn == e.via \in {"str", "string", "char"} IN
  IF e.via = "literal"
  THEN Failed({<<"C17:parse_smt_literal_good", ~e.panic /\ e.good /\ Good(e.out)>>,
               <<"C17:usable_as_regex", ~e.re_panic /\ e.re_ok>>})
  ELSE Failed({<<"C17:constructor_good", ~e.panic /\ e.good /\ Good(e.out)>>,
               <<"C17:constructor_keeps_valid", Len(e.out) = Len(e["in"]) /\
                    \A k \in 1..Len(e["in"]) : k <= Len(e.out) =>
                       IF e["in"][k] \in 0..MaxChar THEN e.out[k] = e["in"][k]
                       ELSE (e.out[k] \in 0..MaxChar /\ (~charIn => e.out[k] = REPLACEMENT))>>,
               <<"C17:usable_as_regex", ~e.re_panic /\ e.re_ok>>})
BadChars(e) ==
  Failed({<<"C17:from_char_good",
            \A k \in 1..Len(e["in"]) :
               /\ e.goods[k] /\ Len(e.outs[k]) = 1 /\ e.outs[k][1] \in 0..MaxChar
               /\ (e["in"][k] <= MaxChar => e.outs[k][1] = e["in"][k])>>})

(* ---- C08 literals ---- *)
\* The property fixes what happens to SMT-LIB characters only: a character of the text above
\* MaxChar (a Rust char can be) may come out as anything well formed (C17 requires that much).
SameUpToNonSmt(out, dec) == Len(out) = Len(dec) /\ \A k \in 1..Len(dec) : dec[k] <= MaxChar => out[k] = dec[k]
BadParse(e) ==
  LET n == Len(e.x) IN
  Failed({<<"C08:parse_smt_literal", ~e.panic /\ SameUpToNonSmt(e.prefixes[n + 1], Decode(e.x))>>,
          \* per-step binding: after every prefix the crate's parser is in the state of LiteralParser
          <<"C08:parser_steps", \A k \in 0..n : SameUpToNonSmt(e.prefixes[k + 1], PResult(PRun(PInit, SubSeq(e.x, 1, k))))>>,
          <<"C17:parse_smt_literal_good", Good(e.prefixes[n + 1])>>})
PrintOk(s, body) == Printable(body) /\ QuotesDoubled(body) /\ RoundTrips(s, body)
BadPrint(e) ==
  Failed({<<"C08:display_printable_ascii", e.quoted /\ Printable(e.body)>>,
          <<"C08:display_doubles_quotes", QuotesDoubled(e.body)>>,
          <<"C08:display_round_trips", RoundTrips(e.s, e.body) /\ e.reparsed = e.s>>})
BadPrintChars(e) ==
  Failed({<<"C08:single_code_points",
            \A k \in 1..Len(e.items) :
               LET it == e.items[k] d == it.d IN
               /\ Len(d) >= 2 /\ d[1] = DQUOTE /\ d[Len(d)] = DQUOTE
               /\ PrintOk(<<it.x>>, SubSeq(d, 2, Len(d) - 1))
               /\ PrintOk(<<it.x>>, it.a) /\ PrintOk(<<it.x>>, it.b)>>})

Bad(e) ==
  CASE e.op = "f"     -> BadF(e)
    [] e.op = "codes" -> BadCodes(e)
    [] e.op = "ctor"  -> BadCtor(e)
    [] e.op = "chars" -> BadChars(e)
    [] e.op = "parse" -> BadParse(e)
    [] e.op = "print" -> BadPrint(e)
    [] e.op = "printchars" -> BadPrintChars(e)
    [] OTHER -> {"unknown_event"}

Init == TInit
Next == TNext(Bad)
=============================================================================

-------------------------- MODULE Trace_LoopRanges --------------------------
(* Validates loopranges.ndjson (C15).  Calls with small parameters are      *)
(* judged by the set semantics; calls with large parameters by the closed   *)
(* forms, which MC_LoopRanges shows equivalent on the small scope.          *)
EXTENDS TraceBase, LoopRanges

IsRange(x) == x # <<-9, -9>>          \* the harness logs <<-9,-9>> when the call panicked

BadPair(e) ==
  LET r == e.r s == e.s IN
  IF e.small THEN
    Failed({<<"C15:add", IsRange(e.add) /\ ObAdd(r, s, e.add)>>,
            <<"C15:mul_contains_products", IsRange(e.mul) /\ ObMul(r, s, e.mul)>>,
            <<"C15:includes", ObIncludes(r, s, e.includes)>>,
            <<"C15:right_mul_is_exact", IsRange(e.mul) /\ ~e.exact_panic /\ ObExact(r, s, e.mul, e.exact)>>})
  ELSE
    Failed({<<"C15:add", e.add = AddCF(r, s)>>,
            <<"C15:mul_contains_products",
               /\ IsRange(e.mul) /\ WellFormed(e.mul)
               /\ In(e.mul, r[1] * s[1])
               /\ (~Unb(r) /\ ~Unb(s)) => In(e.mul, r[2] * s[2])
               /\ ((Unb(r) /\ HasPositive(s)) \/ (Unb(s) /\ HasPositive(r))) => Unb(e.mul)>>,
            <<"C15:includes", e.includes = IncludesCF(r, s)>>,
            <<"C15:right_mul_is_exact", ~e.exact_panic /\ (e.mul = MulCF(r, s) => e.exact = ExactCF(r, s))>>})

BadUnary(e) ==
  LET r == e.r IN
  Failed({<<"C15:constructor", e.ctor = r /\ e.start = r[1] /\ e.finite = ~Unb(r) /\ e.infinite = Unb(r)>>,
          <<"C15:predicates", /\ e.point = (~Unb(r) /\ r[1] = r[2])
                              /\ e.zero = (r = <<0, 0>>) /\ e.one = (r = <<1, 1>>) /\ e.all = (r = <<0, -1>>)>>,
          <<"C15:contains", \A j \in 1..Len(e.contains) : ObContains(r, e.contains[j][1], e.contains[j][2])>>,
          <<"C15:shift", IsRange(e.shift) /\ (IF e.small THEN ObShift(r, e.shift) ELSE e.shift = ShiftCF(r))>>,
          <<"C15:scale", \A j \in 1..Len(e.scale) :
                            LET k == e.scale[j].k x == e.scale[j].res IN
                            IsRange(x) /\ (IF e.small THEN ObScale(r, k, x) ELSE x = ScaleCF(r, k))>>,
          <<"C15:add_point", \A j \in 1..Len(e.scale) :
                            LET k == e.scale[j].k x == e.scale[j].add_point IN
                            IsRange(x) /\ (IF e.small THEN ObAdd(r, <<k, k>>, x) ELSE x = AddCF(r, <<k, k>>))>>})

(* extreme bounds: a value v is logged as <<v \div 65536, v % 65536>> (TLC integers are 32-bit) and only compared *)
LeB(x, y) == x[1] < y[1] \/ (x[1] = y[1] /\ x[2] <= y[2])
InB(r, i) == LeB(r.lo, i) /\ (r.inf \/ LeB(i, r.hi))
InclB(r, s) == LeB(r.lo, s.lo) /\ (r.inf \/ (~s.inf /\ LeB(s.hi, r.hi)))
BadBig(e) ==
  Failed({<<"C15:contains", \A j \in 1..Len(e.contains) : e.contains[j].res = InB(e.r, e.contains[j].i)>>,
          <<"C15:includes", \A j \in 1..Len(e.includes) : e.includes[j].res = InclB(e.r, e.includes[j].s)>>,
          <<"C15:predicates", /\ e.finite = ~e.r.inf /\ e.infinite = e.r.inf /\ e.start = e.r.lo
                              /\ e.point = (~e.r.inf /\ e.r.lo = e.r.hi)>>})

Bad(e) ==
  CASE e.op = "pair"  -> BadPair(e)
    [] e.op = "big"   -> BadBig(e)
    [] e.op = "unary" -> BadUnary(e)
    [] e.op = "named" -> Failed({<<"C15:named_constructors",
                                  e.opt = <<0, 1>> /\ e.star = <<0, -1>> /\ e.plus = <<1, -1>> /\ e.point3 = <<3, 3>>>>})
    [] OTHER -> {"unknown_event"}

Init == TInit
Next == TNext(Bad)
=============================================================================

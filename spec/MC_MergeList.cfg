CONSTANT MaxChar = 3
INIT Init
NEXT Next
INVARIANT Determined
INVARIANT Monoid
INVARIANT NAry
CHECK_DEADLOCK FALSE

----------------------------- MODULE LoopLemmas -----------------------------
(***************************************************************************)
(* The closed forms of module LoopRanges for add, shift, includes and      *)
(* contains denote the right SETS OF NATURALS, for all parameters (TLAPS). *)
(* MC_LoopRanges checks the same equalities on a window of small values;   *)
(* Trace_LoopRanges uses the closed forms to judge calls with large        *)
(* parameters - these theorems are what makes that step sound.             *)
(* A range is <<lo, hi>> with hi = -1 for "no upper bound" (as logged).    *)
(***************************************************************************)
EXTENDS Integers, TLAPS

Unb(r)        == r[2] < 0
WellFormed(r) == r[1] \in Nat /\ r[2] \in Int /\ (Unb(r) \/ r[1] <= r[2])
In(r, n)      == r[1] <= n /\ (Unb(r) \/ n <= r[2])
Max2(a, b)    == IF a >= b THEN a ELSE b
AddCF(r, s)   == <<r[1] + s[1], IF Unb(r) \/ Unb(s) THEN -1 ELSE r[2] + s[2]>>
ShiftCF(r)    == <<Max2(r[1] - 1, 0), IF Unb(r) THEN -1 ELSE Max2(r[2] - 1, 0)>>
IncludesCF(r, s) == r[1] <= s[1] /\ (Unb(r) \/ (~Unb(s) /\ s[2] <= r[2]))

(* add: n is in the closed form iff it is a sum of a member of r and a member of s *)
THEOREM AddSound ==
  ASSUME NEW r, NEW s, WellFormed(r), WellFormed(s),
         NEW x \in Nat, NEW y \in Nat, In(r, x), In(s, y)
  PROVE  In(AddCF(r, s), x + y)
  BY DEF WellFormed, In, AddCF, Unb

THEOREM AddComplete ==
  ASSUME NEW r, NEW s, WellFormed(r), WellFormed(s),
         NEW n \in Nat, In(AddCF(r, s), n)
  PROVE  \E x, y \in Nat : In(r, x) /\ In(s, y) /\ n = x + y
  <1>1. CASE Unb(s)
        \* take the least member of r, the rest goes to s
        <2>1. r[1] \in Nat /\ n - r[1] \in Nat /\ In(r, r[1]) /\ In(s, n - r[1]) /\ n = r[1] + (n - r[1])
              BY <1>1 DEF WellFormed, In, AddCF, Unb
        <2> USE <2>1
        <2>2. WITNESS r[1] \in Nat, (n - r[1]) \in Nat
        <2> QED BY <2>1
  <1>2. CASE ~Unb(s) /\ Unb(r)
        <2>1. s[1] \in Nat /\ n - s[1] \in Nat /\ In(s, s[1]) /\ In(r, n - s[1]) /\ n = (n - s[1]) + s[1]
              BY <1>2 DEF WellFormed, In, AddCF, Unb
        <2> USE <2>1
        <2>2. WITNESS (n - s[1]) \in Nat, s[1] \in Nat
        <2> QED BY <2>1
  <1>3. CASE ~Unb(s) /\ ~Unb(r)
        \* x = max(r.lo, n - s.hi): then y = n - x lies in s
        <2> DEFINE x == Max2(r[1], n - s[2])
        <2>1. x \in Nat /\ n - x \in Nat /\ In(r, x) /\ In(s, n - x) /\ n = x + (n - x)
              BY <1>3 DEF WellFormed, In, AddCF, Unb, Max2
        <2> USE <2>1
        <2>2. WITNESS x \in Nat, (n - x) \in Nat
        <2> QED BY <2>1
  <1> QED BY <1>1, <1>2, <1>3

(* shift: the set of predecessors, with 0 kept at 0 *)
THEOREM ShiftSound ==
  ASSUME NEW r, WellFormed(r), NEW x \in Nat, In(r, x)
  PROVE  In(ShiftCF(r), Max2(x - 1, 0))
  BY DEF WellFormed, In, ShiftCF, Unb, Max2

THEOREM ShiftComplete ==
  ASSUME NEW r, WellFormed(r), NEW n \in Nat, In(ShiftCF(r), n)
  PROVE  \E x \in Nat : In(r, x) /\ n = Max2(x - 1, 0)
  <1>1. CASE In(r, n + 1)
        <2>1. n + 1 \in Nat /\ n = Max2((n + 1) - 1, 0)
              BY DEF Max2
        <2> QED BY <1>1, <2>1
  <1>2. CASE ~In(r, n + 1)
        \* only possible for n = 0 with 0 in r
        <2>1. n = 0 /\ In(r, 0) /\ 0 = Max2(0 - 1, 0)
              BY <1>2 DEF WellFormed, In, ShiftCF, Unb, Max2
        <2> QED BY <2>1
  <1> QED BY <1>1, <1>2

(* includes: set inclusion of s in r *)
THEOREM IncludesSound ==
  ASSUME NEW r, NEW s, WellFormed(r), WellFormed(s), IncludesCF(r, s),
         NEW n \in Nat, In(s, n)
  PROVE  In(r, n)
  BY DEF WellFormed, In, IncludesCF, Unb

THEOREM IncludesComplete ==
  ASSUME NEW r, NEW s, WellFormed(r), WellFormed(s), ~IncludesCF(r, s)
  PROVE  \E n \in Nat : In(s, n) /\ ~In(r, n)
  <1>1. CASE ~(r[1] <= s[1])
        <2>1. s[1] \in Nat /\ In(s, s[1]) /\ ~In(r, s[1])
              BY <1>1 DEF WellFormed, In, Unb
        <2> QED BY <2>1
  <1>2. CASE r[1] <= s[1] /\ ~Unb(r) /\ Unb(s)
        \* a member of s above the upper bound of r
        <2> DEFINE n == Max2(s[1], r[2] + 1)
        <2>1. n \in Nat /\ In(s, n) /\ ~In(r, n)
              BY <1>2 DEF WellFormed, In, Unb, Max2
        <2> QED BY <2>1
  <1>3. CASE r[1] <= s[1] /\ ~Unb(r) /\ ~Unb(s) /\ ~(s[2] <= r[2])
        <2>1. s[2] \in Nat /\ In(s, s[2]) /\ ~In(r, s[2])
              BY <1>3 DEF WellFormed, In, Unb
        <2> QED BY <2>1
  <1> QED BY <1>1, <1>2, <1>3 DEF IncludesCF
(* scale: the closed form satisfies the recursion of the k-fold sum, ScaleCF(r, 0) = {0} and                  *)
(* ScaleCF(r, k + 1) = ScaleCF(r, k) + r (as ranges: AddCF); with AddSound / AddComplete this gives, by         *)
(* induction on k outside the logic, that ScaleCF(r, k) denotes exactly the k-fold sums of members of r.        *)
ScaleCF(r, k) == IF k = 0 THEN <<0, 0>> ELSE <<r[1] * k, IF Unb(r) THEN -1 ELSE r[2] * k>>
Canonical(r)  == WellFormed(r) /\ (Unb(r) => r[2] = -1) /\ r = <<r[1], r[2]>>

THEOREM ScaleZero == ASSUME NEW r PROVE \A n \in Nat : In(ScaleCF(r, 0), n) <=> n = 0
  BY DEF ScaleCF, In, Unb

THEOREM ScaleStep ==
  ASSUME NEW r, Canonical(r), NEW k \in Nat
  PROVE  ScaleCF(r, k + 1) = AddCF(ScaleCF(r, k), r)
  <1>1. CASE k = 0
        BY <1>1 DEF ScaleCF, AddCF, Unb, Canonical, WellFormed
  <1>2. CASE k # 0
        <2>1. r[1] * (k + 1) = r[1] * k + r[1]
              BY DEF Canonical, WellFormed
        <2>2. ~Unb(r) => r[2] * (k + 1) = r[2] * k + r[2]
              BY DEF Canonical, WellFormed, Unb
        <2>3. ~Unb(r) => r[2] * k >= 0
              BY <1>2 DEF Canonical, WellFormed, Unb
        <2> QED BY <1>2, <2>1, <2>2, <2>3 DEF ScaleCF, AddCF, Unb, Canonical, WellFormed
  <1> QED BY <1>1, <1>2

THEOREM ScaleWellFormed ==
  ASSUME NEW r, Canonical(r), NEW k \in Nat
  PROVE  WellFormed(ScaleCF(r, k))
  <1>1. CASE k = 0
        BY <1>1 DEF ScaleCF, WellFormed, Unb
  <1>2. CASE k # 0
        <2>1. r[1] * k \in Nat
              BY DEF Canonical, WellFormed
        <2>2. ~Unb(r) => (r[2] * k \in Int /\ r[1] * k <= r[2] * k /\ r[2] * k >= 0)
              BY <1>2 DEF Canonical, WellFormed, Unb
        <2> QED BY <1>2, <2>1, <2>2 DEF ScaleCF, WellFormed, Unb
  <1> QED BY <1>1, <1>2
=============================================================================

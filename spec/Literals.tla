------------------------------ MODULE Literals ------------------------------
(***************************************************************************)
(* SMT-LIB 2.6 string literals.  A text is a sequence of code points.      *)
(*      \\u d3 d2 d1 d0   (exactly four hex digits)                         *)
(*      \\u{d0} ... \\u{d4 d3 d2 d1 d0}   (one to five hex digits, value <= MaxChar) *)
(* emit the value and skip the escape; otherwise copy the character.       *)
(* LiteralParser is the operational, character-at-a-time machine with the  *)
(* five modes of the crate's parser; MC_Literals checks                    *)
(*      Flush(run of LiteralParser on x) = Decode(x)                       *)
(* for every short text x over the critical symbols.                       *)
(***************************************************************************)
EXTENDS Alphabet, Integers, Sequences


BSLASH == 92   LBRACE == 123   RBRACE == 125   LOWER_U == 117   DQUOTE == 34

IsHex(c)  == (48 <= c /\ c <= 57) \/ (65 <= c /\ c <= 70) \/ (97 <= c /\ c <= 102)
HexVal(c) == IF c <= 57 THEN c - 48 ELSE IF c <= 70 THEN c - 55 ELSE c - 87
RECURSIVE HexValue(_)
HexValue(ds) == IF ds = <<>> THEN 0 ELSE HexValue(SubSeq(ds, 1, Len(ds) - 1)) * 16 + HexVal(ds[Len(ds)])

\* length of the escape sequence starting at position i of x (x[i] is a backslash), or 0 if none does
EscLen(x, i) ==
  LET n == Len(x)
      at(k) == IF k <= n THEN x[k] ELSE -1
  IN IF at(i + 1) # LOWER_U THEN 0
     ELSE IF \A k \in 2..5 : IsHex(at(i + k)) THEN 6
     ELSE IF at(i + 2) # LBRACE THEN 0
     ELSE LET cands == {d \in 1..5 : (\A k \in 1..d : IsHex(at(i + 2 + k))) /\ at(i + 3 + d) = RBRACE} IN
          IF cands = {} THEN 0
          ELSE LET d == CHOOSE d \in cands : TRUE IN       \* unique: the digits are followed by the brace
               IF HexValue(SubSeq(x, i + 3, i + 2 + d)) <= MaxChar THEN d + 4 ELSE 0
EscValue(x, i, len) == IF x[i + 2] = LBRACE THEN HexValue(SubSeq(x, i + 3, i + len - 2)) ELSE HexValue(SubSeq(x, i + 2, i + 5))

RECURSIVE DecodeFrom(_, _)
DecodeFrom(x, i) ==
  IF i > Len(x) THEN <<>>
  ELSE IF x[i] = BSLASH /\ EscLen(x, i) > 0
       THEN <<EscValue(x, i, EscLen(x, i))>> \o DecodeFrom(x, i + EscLen(x, i))
       ELSE <<x[i]>> \o DecodeFrom(x, i + 1)
Decode(x) == DecodeFrom(x, 1)

-----------------------------------------------------------------------------
(* The operational parser: mode, pending characters, output so far.        *)
PInit == [mode |-> "init", pend |-> <<>>, code |-> 0, out |-> <<>>]
PFlushPending(p) == [mode |-> "init", pend |-> <<>>, code |-> 0, out |-> p.out \o p.pend]
PClose(p)        == [mode |-> "init", pend |-> <<>>, code |-> 0, out |-> Append(p.out, p.code)]
PConsume(p, c)   == IF c = BSLASH THEN [p EXCEPT !.mode = "slash", !.pend = <<c>>]
                    ELSE [p EXCEPT !.out = Append(p.out, c)]
PAddHex(p, c)    == [p EXCEPT !.pend = Append(p.pend, c), !.code = p.code * 16 + HexVal(c)]
PStep(p, c) ==
  CASE p.mode = "init"  -> PConsume(p, c)
    [] p.mode = "slash" -> IF c = LOWER_U THEN [p EXCEPT !.mode = "u", !.pend = Append(p.pend, c)]
                           ELSE PConsume(PFlushPending(p), c)
    [] p.mode = "u"     -> IF c = LBRACE THEN [p EXCEPT !.mode = "brace", !.pend = Append(p.pend, c)]
                           ELSE IF IsHex(c) THEN [PAddHex(p, c) EXCEPT !.mode = "hex"]
                           ELSE PConsume(PFlushPending(p), c)
    [] p.mode = "brace" -> IF c = RBRACE /\ Len(p.pend) > 3 /\ p.code <= MaxChar THEN PClose(p)
                           ELSE IF IsHex(c) /\ Len(p.pend) < 8 THEN PAddHex(p, c)
                           ELSE PConsume(PFlushPending(p), c)
    [] p.mode = "hex"   -> IF IsHex(c) THEN (LET q == PAddHex(p, c) IN IF Len(q.pend) = 6 THEN PClose(q) ELSE q)
                           ELSE PConsume(PFlushPending(p), c)
RECURSIVE PRun(_, _)
PRun(p, x) == IF x = <<>> THEN p ELSE PRun(PStep(p, Head(x)), Tail(x))
PResult(p) == PFlushPending(p).out
Parse(x)   == PResult(PRun(PInit, x))

-----------------------------------------------------------------------------
(* Printing: the body (between the outer quotes) of the Display form.      *)
Printable(body) == \A k \in 1..Len(body) : 32 <= body[k] /\ body[k] <= 126
\* undo quote doubling; "bad" if a double quote is not doubled
RECURSIVE Undouble(_)
Undouble(b) == IF b = <<>> THEN <<>>
               ELSE IF b[1] = DQUOTE
                    THEN IF Len(b) >= 2 /\ b[2] = DQUOTE THEN <<DQUOTE>> \o Undouble(SubSeq(b, 3, Len(b)))
                         ELSE <<-1>>                                    \* a lone quote: not a literal body
                    ELSE <<b[1]>> \o Undouble(Tail(b))
QuotesDoubled(body) == -1 \notin {Undouble(body)[k] : k \in 1..Len(Undouble(body))}
RoundTrips(s, body) == Decode(Undouble(body)) = s
=============================================================================

----------------------------- MODULE MC_SubLang -----------------------------
(***************************************************************************)
(* U1 for the syntactic inclusion test as transcribed in Constructors      *)
(* (SubLangN): whenever it answers TRUE the inclusion holds (C16, in the   *)
(* design) - decided exactly with the residual automata of module Regex.   *)
(* Universe: left-hand sides = concatenations of up to 4 factors, right-   *)
(* hand sides = concatenations of up to 5 factors, over the letters, a     *)
(* range, Sigma^*, a star, a complement and a union (built with the model  *)
(* constructors, so that they are in normal form), plus every pair of      *)
(* depth-<=1 terms of MC_Regex's universe.  One state per pair index,      *)
(* judged in Next (K shards).                                              *)
(***************************************************************************)
EXTENDS MC_Regex, Constructors

A0 == NRng(0, 0)
A1 == NRng(1, 1)
FactorsU == <<A0, A1, NRng(0, 1), NAllT, MkLoop(A0, <<0, -1>>)>>
FactorsV == <<A0, A1, NRng(0, 1), NAllT, MkNot(A0), NAlt({A0, NCat(A1, A1)})>>
RECURSIVE SeqAt(_, _, _)
SeqAt(F, len, code) == IF len = 0 THEN <<>> ELSE <<F[(code % Len(F)) + 1]>> \o SeqAt(F, len - 1, code \div Len(F))
RECURSIVE Pw(_, _)
Pw(b, e) == IF e = 0 THEN 1 ELSE b * Pw(b, e - 1)
\* index -> sequence: lengths 1..maxlen in turn
RECURSIVE SeqIdx(_, _, _, _)
SeqIdx(F, len, maxlen, n) == IF n < Pw(Len(F), len) \/ len = maxlen THEN SeqAt(F, len, n % Pw(Len(F), len))
                             ELSE SeqIdx(F, len + 1, maxlen, n - Pw(Len(F), len))
RECURSIVE CountSeq(_, _)
CountSeq(F, maxlen) == IF maxlen = 0 THEN 0 ELSE Pw(Len(F), maxlen) + CountSeq(F, maxlen - 1)
NU == CountSeq(FactorsU, 4)
NV == CountSeq(FactorsV, 5)
NCatPairs == NU * NV
ND1 == N1 * N1
NPairs == NCatPairs + ND1
LeftAt(n)  == IF n < NCatPairs THEN MkCatList(SeqIdx(FactorsU, 1, 4, n \div NV)) ELSE BuildN(S1[((n - NCatPairs) \div N1) + 1])
RightAt(n) == IF n < NCatPairs THEN MkCatList(SeqIdx(FactorsV, 1, 5, n % NV)) ELSE BuildN(S1[((n - NCatPairs) % N1) + 1])

VARIABLE p
KS == 64
InitS == p \in 0..KS - 1 /\ l = 0
Sound(n) == LET x == LeftAt(n) y == RightAt(n) IN
            IF SubLangN(x, y) /\ ~SubLang(Ke(x), Ke(y)) THEN PrintT(<<"UNSOUND", n, x, y>>) /\ FALSE ELSE TRUE
NextS == p < NPairs /\ Sound(p) /\ p' = p + KS /\ l' = l
DoneS == TLCGet("stats").distinct = NPairs + KS
=============================================================================

CONSTANTS MaxChar = 196607  TextLen = 6  AttemptDigits = 6
INIT Init
NEXT Next
CHECK_DEADLOCK FALSE
POSTCONDITION Done

CONSTANT MaxPrefix = 2
INIT Init
NEXT Next
CHECK_DEADLOCK FALSE

--------------------------- MODULE MC_CoverSearch ---------------------------
(***************************************************************************)
(* Algorithm transcriptions (U1): the two binary searches of               *)
(* CharPartition -- class_of_char and interval_cover -- written in PlusCal *)
(* arm by arm after character_sets.rs, and checked against the             *)
(* set-theoretic definitions of Partitions.tla on EVERY partition of       *)
(* 0..MaxChar, every character and every query set.  A slip such as        *)
(* comparing with end(i+1) instead of start(i+1) in the last arm of        *)
(* interval_cover (defect F2) is a counterexample here, in the design,     *)
(* before any Rust runs.                                                   *)
(***************************************************************************)
EXTENDS Partitions, TLC

(* the sorted list of a partition, with the crate's out-of-range convention *)
StartOf(p, i) == IF i < Len(p) THEN p[i + 1][1] ELSE MaxChar + 1         \* 0-based index as in the crate
EndOf(p, i)   == IF i < Len(p) THEN p[i + 1][2] ELSE MaxChar + 1

(* every partition of 0..MaxChar as a sorted list *)
RECURSIVE PartsFrom(_)
PartsFrom(lo) ==            \* sorted lists of disjoint intervals all starting at >= lo
  {<<>>} \cup UNION {{<<c>> \o rest : rest \in PartsFrom(c[2] + 1)} : c \in {c \in Intervals : c[1] >= lo}}
AllPartitions == PartsFrom(0)


(* --algorithm Searches
variables p \in AllPartitions, x \in 0..MaxChar, S \in Intervals,
          i = 0, j = 0, h = 0, cls = -2, cov = "none", cidx = -1;
begin
  \* ---- class_of_char(x) ----
  C0: i := 0; j := Len(p);
  C1: while i < j /\ cls = -2 do
        h := i + (j - i) \div 2;
        if Mem(p[h + 1], x) then cls := h;
        elsif p[h + 1][2] < x then i := h + 1;       \* is_before(x)
        else j := h;
        end if;
      end while;
      if cls = -2 then cls := -1; end if;            \* Complement
  \* ---- interval_cover(S): largest i with start(i) <= a, 0 if none ----
  I0: i := 0; j := Len(p);
  I1: while i + 1 < j do
        h := i + (j - i) \div 2;
        if p[h + 1][1] <= S[1] then i := h; else j := h; end if;
      end while;
  I2: if S[1] < StartOf(p, i) then
        if S[2] < StartOf(p, i) then cov := "disjoint"; else cov := "overlaps"; end if;
      elsif S[1] <= EndOf(p, i) then
        if S[2] <= EndOf(p, i) then cov := "in"; cidx := i; else cov := "overlaps"; end if;
      else
        if S[2] < StartOf(p, i + 1) then cov := "disjoint"; else cov := "overlaps"; end if;
      end if;
end algorithm; *)
\* BEGIN TRANSLATION
VARIABLES pc, p, x, S, i, j, h, cls, cov, cidx

vars == << pc, p, x, S, i, j, h, cls, cov, cidx >>

Init == (* Global variables *)
        /\ p \in AllPartitions
        /\ x \in 0..MaxChar
        /\ S \in Intervals
        /\ i = 0
        /\ j = 0
        /\ h = 0
        /\ cls = -2
        /\ cov = "none"
        /\ cidx = -1
        /\ pc = "C0"

C0 == /\ pc = "C0"
      /\ i' = 0
      /\ j' = Len(p)
      /\ pc' = "C1"
      /\ UNCHANGED << p, x, S, h, cls, cov, cidx >>

C1 == /\ pc = "C1"
      /\ IF i < j /\ cls = -2
            THEN /\ h' = (i + (j - i) \div 2)
                 /\ IF Mem(p[h' + 1], x)
                       THEN /\ cls' = h'
                            /\ UNCHANGED << i, j >>
                       ELSE /\ IF p[h' + 1][2] < x
                                  THEN /\ i' = h' + 1
                                       /\ j' = j
                                  ELSE /\ j' = h'
                                       /\ i' = i
                            /\ cls' = cls
                 /\ pc' = "C1"
            ELSE /\ IF cls = -2
                       THEN /\ cls' = -1
                       ELSE /\ TRUE
                            /\ cls' = cls
                 /\ pc' = "I0"
                 /\ UNCHANGED << i, j, h >>
      /\ UNCHANGED << p, x, S, cov, cidx >>

I0 == /\ pc = "I0"
      /\ i' = 0
      /\ j' = Len(p)
      /\ pc' = "I1"
      /\ UNCHANGED << p, x, S, h, cls, cov, cidx >>

I1 == /\ pc = "I1"
      /\ IF i + 1 < j
            THEN /\ h' = (i + (j - i) \div 2)
                 /\ IF p[h' + 1][1] <= S[1]
                       THEN /\ i' = h'
                            /\ j' = j
                       ELSE /\ j' = h'
                            /\ i' = i
                 /\ pc' = "I1"
            ELSE /\ pc' = "I2"
                 /\ UNCHANGED << i, j, h >>
      /\ UNCHANGED << p, x, S, cls, cov, cidx >>

I2 == /\ pc = "I2"
      /\ IF S[1] < StartOf(p, i)
            THEN /\ IF S[2] < StartOf(p, i)
                       THEN /\ cov' = "disjoint"
                       ELSE /\ cov' = "overlaps"
                 /\ cidx' = cidx
            ELSE /\ IF S[1] <= EndOf(p, i)
                       THEN /\ IF S[2] <= EndOf(p, i)
                                  THEN /\ cov' = "in"
                                       /\ cidx' = i
                                  ELSE /\ cov' = "overlaps"
                                       /\ cidx' = cidx
                       ELSE /\ IF S[2] < StartOf(p, i + 1)
                                  THEN /\ cov' = "disjoint"
                                  ELSE /\ cov' = "overlaps"
                            /\ cidx' = cidx
      /\ pc' = "Done"
      /\ UNCHANGED << p, x, S, i, j, h, cls >>

(* Allow infinite stuttering to prevent deadlock on termination. *)
Terminating == pc = "Done" /\ UNCHANGED vars

Next == C0 \/ C1 \/ I0 \/ I1 \/ I2
           \/ Terminating

Spec == Init /\ [][Next]_vars

Termination == <>(pc = "Done")

\* END TRANSLATION

\* `part` (the object variable of Partitions.tla) plays no role here
InitP == Init /\ part = <<>>
NextP == Next /\ UNCHANGED part
Done == pc = "Done"
ClassOfCharCorrect == Done => ObClassOfChar(SeqSet(p), p, x, cls)
CoverCorrect ==
  Done => LET cv == Cover(SeqSet(p), S, CoverDomain(SeqSet(p), S)) IN
          CASE cv[1] = "in" -> cov = "in" /\ p[cidx + 1] = cv[2]
            [] cv[1] = "disjoint" -> cov = "disjoint"
            [] OTHER -> cov = "overlaps"
\* and the region lemma for Cover: the boundary points decide as the whole alphabet does
CoverRegionLemma == Cover(SeqSet(p), S, CoverDomain(SeqSet(p), S)) = Cover(SeqSet(p), S, 0..MaxChar)
=============================================================================

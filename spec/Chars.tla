------------------------------- MODULE Chars -------------------------------
(***************************************************************************)
(* Characters and intervals of characters (CharSet of character_sets.rs).  *)
(*                                                                         *)
(* The alphabet is 0..MaxChar.  An interval is a pair <<lo,hi>> with       *)
(* lo <= hi <= MaxChar; it denotes the set lo..hi.  Everything below is    *)
(* stated set-theoretically: "for every character x in D ...".  D is       *)
(* either the whole alphabet (small-scope models, MaxChar <= 7) or the set *)
(* Reps(..) of region representatives of the intervals occurring in the    *)
(* call (real alphabet, MaxChar = 196607); MC_Chars checks that the two    *)
(* choices give the same verdict for every candidate result (the region    *)
(* lemma of DESIGN 2.4).                                                   *)
(***************************************************************************)
EXTENDS Alphabet, Integers, Sequences, FiniteSets


Alphabet == 0..MaxChar

IsInterval(c) == /\ Len(c) = 2
                 /\ 0 <= c[1] /\ c[1] <= c[2] /\ c[2] <= MaxChar

Intervals == {<<a, b>> : a, b \in Alphabet} \cap {c \in Alphabet \X Alphabet : c[1] <= c[2]}

Mem(c, x) == c[1] <= x /\ x <= c[2]
SetOf(c)  == c[1]..c[2]

None == <<>>                       \* Option::None for Option<CharSet>

(* Region representatives: the least element of every maximal run of       *)
(* characters that no end point of an interval in cs separates.            *)
Reps(cs) == ({0} \cup {c[1] : c \in cs} \cup {c[2] + 1 : c \in cs}) \cap Alphabet

Pt(x) == <<x, x>>                  \* a character argument seen as an interval

-----------------------------------------------------------------------------
(* Obligations: each takes the arguments, the result r returned by the     *)
(* implementation, and the domain D of characters to quantify over.        *)

ObContains(c, x, r)   == r = Mem(c, x)
ObCovers(c, d, r, D)  == r = (\A x \in D : Mem(d, x) => Mem(c, x))
ObBefore(c, x, r, D)  == r = (\A y \in D : Mem(c, y) => y < x)
ObAfter(c, x, r, D)   == r = (\A y \in D : Mem(c, y) => x < y)
ObSize(c, r)          == r = c[2] - c[1] + 1            \* = Cardinality(SetOf(c)), MC_Chars
ObSingleton(c, r, D)  == r = (\A x \in D : Mem(c, x) => x = c[1])
ObAlphabet(c, r, D)   == r = (\A x \in D : Mem(c, x))
ObPick(c, r)          == Mem(c, r)

(* intersection of a list of intervals; None iff empty *)
ObInterList(cs, r, D) ==
  IF r = None THEN \A x \in D : \E i \in 1..Len(cs) : ~Mem(cs[i], x)
  ELSE /\ IsInterval(r)
       /\ \A x \in D : Mem(r, x) <=> (\A i \in 1..Len(cs) : Mem(cs[i], x))
ObInter(c, d, r, D) == ObInterList(<<c, d>>, r, D)

(* union: Some(the union) iff the union is an interval *)
UnionIsInterval(c, d, D) ==          \* no character strictly between two members is missing
  \A y \in D : (\E x \in {c[1], d[1]} : x < y) /\ (\E z \in {c[2], d[2]} : y < z)
               => (Mem(c, y) \/ Mem(d, y))
ObUnion(c, d, r, D) ==
  IF r = None THEN ~UnionIsInterval(c, d, D)
  ELSE /\ IsInterval(r)
       /\ UnionIsInterval(c, d, D)
       /\ \A x \in D : Mem(r, x) <=> (Mem(c, x) \/ Mem(d, x))

(* partial order: r in {"eq","lt","gt","none"} *)
AllBefore(c, d, D) == \A x \in D : Mem(c, x) => \A y \in D : Mem(d, y) => x < y
SameSet(c, d, D)   == \A x \in D : Mem(c, x) <=> Mem(d, x)
ObCmp(c, d, r, D) ==
  CASE SameSet(c, d, D)   -> r = "eq"
    [] AllBefore(c, d, D) -> r = "lt"
    [] AllBefore(d, c, D) -> r = "gt"
    [] OTHER              -> r = "none"

-----------------------------------------------------------------------------
(* Closed forms (what a correct implementation computes); validated        *)
(* against the obligations by MC_Chars and used by generation models.      *)
Max2(a, b) == IF a >= b THEN a ELSE b
Min2(a, b) == IF a <= b THEN a ELSE b
InterCF(c, d) == LET lo == Max2(c[1], d[1]) hi == Min2(c[2], d[2])
                 IN IF lo <= hi THEN <<lo, hi>> ELSE None
UnionCF(c, d) == IF Max2(c[1], d[1]) <= Min2(c[2], d[2]) + 1
                 THEN <<Min2(c[1], d[1]), Max2(c[2], d[2])>> ELSE None
CmpCF(c, d) == IF c = d THEN "eq" ELSE IF c[2] < d[1] THEN "lt"
               ELSE IF d[2] < c[1] THEN "gt" ELSE "none"
=============================================================================

---------------------------- MODULE RegionLemma ----------------------------
(***************************************************************************)
(* The region argument of DESIGN 2.4, proved for ALL alphabets (TLAPS):    *)
(* if no interval end point (lo, or hi+1, of any interval of a finite      *)
(* family) lies in (r, x], then x and r belong to exactly the same         *)
(* intervals of the family.  Hence every Boolean combination of interval   *)
(* membership tests has the same value on x as on the least element r of   *)
(* its region, and quantifying over one representative per region equals   *)
(* quantifying over all characters.  (TLC checks the same statement on the *)
(* small scopes in MC_Chars / MC_CoverSearch; this is the unbounded        *)
(* version.)                                                               *)
(***************************************************************************)
EXTENDS Integers, TLAPS

Mem(c, x) == c[1] <= x /\ x <= c[2]

THEOREM SameMembership ==
  ASSUME NEW lo \in Int, NEW hi \in Int, NEW r \in Int, NEW x \in Int,
         r <= x,
         ~(r < lo /\ lo <= x),              \* the start of the interval is not in (r, x]
         ~(r < hi + 1 /\ hi + 1 <= x)       \* nor is the first character after it
  PROVE  Mem(<<lo, hi>>, x) <=> Mem(<<lo, hi>>, r)
  BY DEF Mem

THEOREM RegionLemma ==
  ASSUME NEW S, \A c \in S : c \in Int \X Int,          \* a family of intervals <<lo, hi>>
         NEW r \in Int, NEW x \in Int, r <= x,
         \A c \in S : ~(r < c[1] /\ c[1] <= x) /\ ~(r < c[2] + 1 /\ c[2] + 1 <= x)
  PROVE  \A c \in S : Mem(c, x) <=> Mem(c, r)
  <1> SUFFICES ASSUME NEW c \in S PROVE Mem(c, x) <=> Mem(c, r)
      OBVIOUS
  <1>1. c \in Int \X Int
      OBVIOUS
  <1>2. c[1] \in Int /\ c[2] \in Int
      BY <1>1
  <1> QED
      BY <1>2 DEF Mem
=============================================================================

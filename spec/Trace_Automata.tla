--------------------------- MODULE Trace_Automata ---------------------------
(* Validates automata traces of the real crate:                              *)
(*   builder  (C13): verdict class of build(), and on Ok the automaton's     *)
(*            initial state, finals, counters and full successor function    *)
(*            against SpecDelta;                                             *)
(*   minimize (C04): same language, no two equivalent states, Myhill-Nerode  *)
(*            index when all states are reachable, counters;                 *)
(*   prune    (C14): remove_unreachable_states is a renaming of the          *)
(*            reachable part; combined partition, alphabet, successor table, *)
(*            edges, finals, counters agree with next.                       *)
EXTENDS TraceBase, Dfa, Builder, SequencesExt

DfaOf(dump) == [init |-> dump.init, final |-> dump.final, delta |-> dump.delta]
NStates(dump) == Len(dump.final)
DumpOk(dump) ==      \* next never failed (0 = panicked / out of range) and ids are positions
  /\ dump.ids_ok /\ Len(dump.delta) = NStates(dump) /\ dump.init \in 1..NStates(dump)
  /\ \A s \in 1..NStates(dump) : \A j \in 1..Len(dump.reps) : dump.delta[s][j] \in 1..NStates(dump)
RepIdx(dump, x) == CHOOSE j \in 1..Len(dump.reps) : dump.reps[j] = x

(* ---- structure (C14; also evaluated on builder and minimize results) ---- *)
InRanges(rs, x) == \E a \in 1..Len(rs) : rs[a][1] <= x /\ x <= rs[a][2]
ClassIdx(rs, x) == IF InRanges(rs, x) THEN CHOOSE a \in 1..Len(rs) : rs[a][1] <= x /\ x <= rs[a][2] ELSE 0
RECURSIVE RunW(_, _, _, _)
RunW(dump, q, w, i) == IF i > Len(w) THEN q ELSE RunW(dump, dump.delta[q][w[i]], w, i + 1)
StructureObs(dump, s) ==
  LET n   == NStates(dump)
      R   == 1..Len(dump.reps)
      cls(j) == ClassIdx(s.classes, dump.reps[j])           \* class of the combined partition (0 = complement)
      nalpha == Len(s.alphabet)
  IN
  {<<"counters", s.num_states = n /\ s.init = dump.init
                 /\ s.num_final = Cardinality({q \in 1..n : dump.final[q]})>>,
   \* accepts(w) on whole words (w = indices of representatives) agrees with stepping through next
   <<"accepts_agrees_with_next", \A k \in 1..Len(s.acc) : s.acc[k].r = dump.final[RunW(dump, dump.init, s.acc[k].w, 1)]>>,
   <<"final_states", s.final_states = SetToSortSeq({q \in 1..n : dump.final[q]}, LAMBDA x, y : x < y)>>,
   \* combined_char_partition groups only characters with identical successors in every state
   <<"combined_partition_sound", \A j, k \in R : cls(j) = cls(k) => \A q \in 1..n : dump.delta[q][j] = dump.delta[q][k]>>,
   \* pick_alphabet: one character of each class, in class order (intervals, then the complement if non-empty)
   \* pick_alphabet: exactly one character of each class of the combined partition (any order)
   <<"pick_alphabet",
       /\ nalpha = Len(s.classes) + (IF s.comp_empty THEN 0 ELSE 1)
       /\ \A i \in 1..Len(s.classes) : Cardinality({k \in 1..nalpha : ClassIdx(s.classes, s.alphabet[k]) = i}) = 1
       /\ (~s.comp_empty) => Cardinality({k \in 1..nalpha : ~InRanges(s.classes, s.alphabet[k]) /\ s.alphabet[k] <= 196607}) = 1
       /\ s.comp_empty = (\A j \in R : InRanges(s.classes, dump.reps[j]))>>,
   \* compile_successors: every cell equals the id of next(state, alphabet[i])
   <<"successor_table",
       /\ s.table_alpha = nalpha /\ s.table_states = n /\ Len(s.cells) = n
       /\ \A q \in 1..n : Len(s.cells[q]) = nalpha /\ s.cells[q] = s.by_next[q]>>,
   \* ... and next on the alphabet characters is next on the representatives of the same class
   <<"alphabet_consistent_with_next",
       \A i \in 1..nalpha : \A j \in R :
          cls(j) = ClassIdx(s.classes, s.alphabet[i]) => \A q \in 1..n : s.by_next[q][i] = dump.delta[q][j]>>,
   \* edges(s): one entry per class of the state's own partition, then Complement iff there is a default
   \* edges(q): exactly one entry per class of the state's own partition (any order), leading where next leads
   <<"edges",
       \A q \in 1..n :
          LET st == dump.states[q] e == s.edges[q] nr == Len(st.ranges)
              EdgeOf(cid) == {k \in 1..Len(e) : e[k].cid = cid} IN
          /\ Len(e) = nr + (IF st.default THEN 1 ELSE 0)
          /\ \A a \in 1..nr :
                /\ Cardinality(EdgeOf(a - 1)) = 1
                /\ \A k \in EdgeOf(a - 1) : \A j \in R :
                      (st.ranges[a][1] <= dump.reps[j] /\ dump.reps[j] <= st.ranges[a][2]) => dump.delta[q][j] = e[k].to
          /\ st.default => /\ Cardinality(EdgeOf(-1)) = 1
                            /\ \A k \in EdgeOf(-1) : \A j \in R : ~InRanges(st.ranges, dump.reps[j]) => dump.delta[q][j] = e[k].to>>}

(* ---- C13 ---- *)
RECURSIVE FoldCalls(_, _, _)
FoldCalls(st, calls, k) ==
  IF k > Len(calls) THEN st
  ELSE LET c == calls[k] IN
       FoldCalls(CASE c.op = "add" -> StAdd(st, c.s, <<c.lo, c.hi>>, c.t)
                   [] c.op = "def" -> StDef(st, c.s, c.t)
                   [] c.op = "fin" -> StFin(st, c.s)
                   [] OTHER -> st, calls, k + 1)
BadBuilder(e) ==
  LET st == FoldCalls(StNew(e.calls[1].s), e.calls, 2)
      S  == Mentioned(st)
      v  == Verdict(st.trans, st.dflt, S)
  IN
  IF e.res = "panic" THEN {"C13:build_panicked"}
  ELSE IF e.res # "ok" THEN Failed({<<"C13:complete_conflict_free_spec_accepted", v # "MustAccept">>,
                                    <<"C13:generator_verdict", e.gen_verdict \in {"", v}>>})
  ELSE
    LET a == e.aut n == NStates(a)
        \* the automaton's states carry no names: some numbering of the caller's states must explain it
        \* (the crate numbers them in first-mention order, but the property does not ask for that)
        Numberings == {f \in [S -> 1..n] : \A s1, s2 \in S : s1 # s2 => f[s1] # f[s2]}
        Explains(f) ==
          /\ a.init = f[e.calls[1].s]
          /\ \A s \in S : a.final[f[s]] = st.fin[s]
          /\ \A s \in S : \A j \in 1..Len(a.reps) :
                 a.delta[f[s]][j] = f[SpecDelta(st.trans[s], st.dflt[s], a.reps[j])]
        \* many states: the numbering of the states reachable from the initial one is FORCED (propagate from the
        \* initial state along the specified successors); only the unreachable rest is searched (if it is small)
        init == e.calls[1].s
        RECURSIVE ForceNum(_, _)
        ForceNum(m, fr) ==
          IF fr = {} THEN <<TRUE, m>>
          ELSE LET s == CHOOSE x \in fr : TRUE
                   pairs == {<<SpecDelta(st.trans[s], st.dflt[s], a.reps[j]), a.delta[m[s]][j]>> : j \in 1..Len(a.reps)}
                   clash == \/ \E p \in pairs : p[1] \in DOMAIN m /\ m[p[1]] # p[2]
                            \/ \E p, q \in pairs : p[1] = q[1] /\ p[2] # q[2]
                   new   == {p \in pairs : p[1] \notin DOMAIN m}
                   m2    == [x \in DOMAIN m \cup {p[1] : p \in new} |->
                               IF x \in DOMAIN m THEN m[x] ELSE (CHOOSE p \in new : p[1] = x)[2]]
               IN IF clash THEN <<FALSE, m>> ELSE ForceNum(m2, (fr \ {s}) \cup {p[1] : p \in new})
        ExplainsForced ==
          LET r == ForceNum([x \in {init} |-> a.init], {init})
              m == r[2]
              D == DOMAIN m
              restS == S \ D
              restA == (1..n) \ {m[x] : x \in D}
          IN /\ r[1]
             /\ D \subseteq S
             /\ \A x, y \in D : x # y => m[x] # m[y]
             /\ \A x \in D : a.final[m[x]] = st.fin[x]
             /\ Cardinality(restS) = Cardinality(restA)
             /\ Cardinality(restS) <= 4 =>
                   \E g \in {h \in [restS -> restA] : \A x, y \in restS : x # y => h[x] # h[y]} :
                      Explains([x \in S |-> IF x \in D THEN m[x] ELSE g[x]])
    IN
    Failed({<<"C13:bad_spec_rejected", v # "MustReject">>,
            <<"C13:generator_verdict", e.gen_verdict \in {"", v}>>,
            <<"C13:next_total", DumpOk(a)>>,
            <<"C13:states", n = Cardinality(S)>>,
            <<"C13:num_final", e.str.num_final = Cardinality({s \in S : st.fin[s]}) /\ e.str.num_states = Cardinality(S)>>,
            \* initial state, finals and delta: the explicit transition covering x, else the declared default
            <<"C13:automaton_as_specified",
               (v # "MustReject" /\ DumpOk(a) /\ n = Cardinality(S)) =>
                  IF n <= 5 THEN \E f \in Numberings : Explains(f) ELSE ExplainsForced>>})

(* ---- C04 ---- *)
BadMinimize(e) ==
  IF ~(DumpOk(e.before) /\ DumpOk(e.after) /\ e.before.reps = e.after.reps) THEN {"C04:next_total"}
  ELSE
  LET a == DfaOf(e.before) b == DfaOf(e.after)
      \* automata with hundreds of states: the quadratic Nerode fixpoints are left out, the language is still compared
      big == Len(a.final) > 60
  IN
  Failed({<<"C04:same_language", LangEq(a, b)>>,
          <<"C04:no_equivalent_states", big \/ Reduced(b)>>,
          <<"C04:myhill_nerode_index", big \/ (Reach(a) = States(a) => Len(b.final) = MinimalSize(a))>>,
          <<"C04:not_larger", Len(b.final) <= Len(a.final)>>}
         \cup {<<"C04:" \o o[1], o[2]>> : o \in {x \in StructureObs(e.after, e.str) : x[1] \in {"counters", "final_states"}}})

(* ---- C14 ---- *)
BadPrune(e) ==
  IF ~(DumpOk(e.before) /\ DumpOk(e.after) /\ e.before.reps = e.after.reps) THEN {"C14:next_total"}
  ELSE
  LET a == DfaOf(e.before) b == DfaOf(e.after) IN
  Failed({<<"C14:prune_same_language", LangEq(a, b)>>,
          <<"C14:prune_keeps_exactly_reachable", IsoOntoReach(a, b) /\ Len(b.final) = Cardinality(Reach(a))>>}
         \cup {<<"C14:" \o o[1], o[2]>> : o \in StructureObs(e.before, e.str)}
         \cup {<<"C14:after_" \o o[1], o[2]>> : o \in StructureObs(e.after, e.str_after)}
         \cup {<<"C11:char_set_next",
                 \A k \in 1..Len(e.csn) :
                    LET q == e.csn[k]
                        D == {x \in {q.a} \cup {q.ranges[i][1] : i \in 1..Len(q.ranges)} \cup {q.ranges[i][2] + 1 : i \in 1..Len(q.ranges)} : q.a <= x /\ x <= q.b}
                        inOne == \E i \in 1..Len(q.ranges) : \A x \in D : q.ranges[i][1] <= x /\ x <= q.ranges[i][2]
                        none  == \A x \in D : ~InRanges(q.ranges, x)
                    IN IF inOne \/ none
                       THEN q.res = "ok" /\ q.to = e.before.delta[q.s][RepIdx(e.before, q.a)]
                       ELSE q.res \notin {"ok", "panic"}>>})

Bad(e) ==
  CASE e.op = "panic"    -> {e.where}
    [] e.op = "builder"  -> BadBuilder(e)
    [] e.op = "minimize" -> IF "panic" \in DOMAIN e.str THEN {"C04:structure_panicked"} ELSE BadMinimize(e)
    [] e.op = "prune"    -> IF "panic" \in DOMAIN e.str \/ "panic" \in DOMAIN e.str_after THEN {"C14:structure_panicked"} ELSE BadPrune(e)
    [] e.op = "build_failed" -> {"harness:dfa_build_failed"}
    [] OTHER -> {"unknown_event"}

\* `bst` (declared by Builder for the state machine) is carried unchanged by the validator
Init == TInit /\ bst = <<>>
Next == TNext(Bad) /\ UNCHANGED bst
=============================================================================

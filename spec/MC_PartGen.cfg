CONSTANTS MaxChar = 6  ListLen = 3
INIT Init
NEXT Next
INVARIANT PushKeepsPartition
INVARIANT ListVerdict
CHECK_DEADLOCK FALSE

----------------------------- MODULE MC_Builder -----------------------------
(* U2 for Builder: TLC enumerates call sequences of the builder state        *)
(* machine over states {0,1,2} and the six labels of the alphabet 0..2 and   *)
(* emits one JSON line per behaviour (each ends with Build).  State 0 gets   *)
(* up to MaxAdd0 transitions in every order, an optional (possibly           *)
(* overridden) default and a final flag; state 1 gets a small completion     *)
(* (none / one transition / default); state 2 is only ever mentioned as a    *)
(* target or completed by a self-default.  Every verdict class is densely    *)
(* populated (counted by the check).                                         *)
EXTENDS Builder, TLC, Json

CONSTANT MaxAdd0

VARIABLES calls, phase
vars == <<bst, calls, phase>>

Labels == Intervals
Call(c) == calls' = Append(calls, c)

Init == bst = [trans |-> <<>>, dflt |-> <<>>, fin |-> <<>>, order |-> <<>>] /\ calls = <<>> /\ phase = "new"

Adds(s) == Len(bst.trans[s])

Next ==
  \/ /\ phase = "new" /\ BNew(0) /\ Call([op |-> "new", s |-> 0, t |-> 0, lo |-> 0, hi |-> 0]) /\ phase' = "s0pre"
  \* a default may be declared BEFORE the transitions of the state (and again after them)
  \/ /\ phase = "s0pre" /\ BDef(0, 1) /\ Call([op |-> "def", s |-> 0, t |-> 1, lo |-> 0, hi |-> 0]) /\ phase' = "s0"
  \/ /\ phase = "s0pre" /\ UNCHANGED <<bst, calls>> /\ phase' = "s0"
  \* state 0: transitions (any label, target 0/1/2), defaults, final flag
  \/ /\ phase = "s0" /\ Adds(0) < MaxAdd0
     /\ \E c \in Labels, t \in 0..1 : BAdd(0, c, t) /\ Call([op |-> "add", s |-> 0, t |-> t, lo |-> c[1], hi |-> c[2]])
     /\ UNCHANGED phase
  \/ /\ phase = "s0"
     /\ \E t \in 0..2 : BDef(0, t) /\ Call([op |-> "def", s |-> 0, t |-> t, lo |-> 0, hi |-> 0])
     /\ phase' = "s0d"
  \/ /\ phase = "s0d"       \* a second default overrides the first
     /\ \E t \in {1} : BDef(0, t) /\ Call([op |-> "def", s |-> 0, t |-> t, lo |-> 0, hi |-> 0])
     /\ phase' = "s1"
  \/ /\ phase \in {"s0", "s0d"} /\ UNCHANGED <<bst, calls>> /\ phase' = "s1"
  \* state 1: a small completion
  \/ /\ phase = "s1"
     /\ \E c \in {<<0, MaxChar>>, <<0, 0>>}, t \in 0..1 :
           BAdd(1, c, t) /\ Call([op |-> "add", s |-> 1, t |-> t, lo |-> c[1], hi |-> c[2]])
     /\ phase' = "s1d"
  \/ /\ phase \in {"s1", "s1d"}
     /\ \E t \in {1, 2} : BDef(1, t) /\ Call([op |-> "def", s |-> 1, t |-> t, lo |-> 0, hi |-> 0])
     /\ phase' = "fin"
  \/ /\ phase \in {"s1", "s1d"} /\ UNCHANGED <<bst, calls>> /\ phase' = "fin"
  \* final flags and the optional completion of state 2
  \/ /\ phase = "fin"
     /\ \E s \in 0..1 : BFin(s) /\ Call([op |-> "fin", s |-> s, t |-> 0, lo |-> 0, hi |-> 0])
     /\ phase' = "s2"
  \/ /\ phase = "fin" /\ UNCHANGED <<bst, calls>> /\ phase' = "s2"
  \/ /\ phase = "s2" /\ 2 \in Mentioned(bst)
     /\ BDef(2, 2) /\ Call([op |-> "def", s |-> 2, t |-> 2, lo |-> 0, hi |-> 0])
     /\ phase' = "build"
  \/ /\ phase = "s2" /\ UNCHANGED <<bst, calls>> /\ phase' = "build"
  \/ /\ phase = "build"
     /\ PrintT(ToJson([calls |-> calls, verdict |-> Verdict(bst.trans, bst.dflt, Mentioned(bst))]))
     /\ phase' = "done" /\ UNCHANGED <<bst, calls>>

(* design-level facts *)
TypeOk == /\ DOMAIN bst.trans = Mentioned(bst) /\ DOMAIN bst.dflt = Mentioned(bst) /\ DOMAIN bst.fin = Mentioned(bst)
          /\ Len(bst.order) = Cardinality(Mentioned(bst))
\* an accepted-class specification determines a total successor function
AcceptedIsTotal ==
  (phase = "build" /\ Verdict(bst.trans, bst.dflt, Mentioned(bst)) = "MustAccept") =>
     \A s \in Mentioned(bst) : \A x \in 0..MaxChar :
        Cardinality(Targets(bst.trans[s], x)) <= 1 /\ (Targets(bst.trans[s], x) = {} => bst.dflt[s] # NoDefault)
\* region lemma for the verdict: region representatives decide as the whole alphabet does
VerdictRegionLemma ==
  phase = "build" =>
     \A s \in Mentioned(bst) :
        /\ StateMustReject(bst.trans[s], bst.dflt[s], StateReps(bst.trans[s])) = StateMustReject(bst.trans[s], bst.dflt[s], 0..MaxChar)
        /\ StateMustAccept(bst.trans[s], bst.dflt[s], StateReps(bst.trans[s])) = StateMustAccept(bst.trans[s], bst.dflt[s], 0..MaxChar)
\* the build() algorithm (validate, then clean up) refines the specification on every generated spec
BuildAlgorithmCorrect ==
  phase = "build" => AlgoRefinesSpec(bst.trans, bst.dflt, Mentioned(bst), 0..MaxChar, TRUE)
=============================================================================

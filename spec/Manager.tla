------------------------------ MODULE Manager ------------------------------
(***************************************************************************)
(* The hash-consing term manager (ReManager, and the thread-local one      *)
(* behind the re_* wrappers) seen from outside: a history is a sequence of *)
(* events; a constructor event records the API function, its key (the     *)
(* identities of the argument terms followed by literal arguments), the    *)
(* identity of the term returned, its public nullable flag and the         *)
(* construction AST.  Identities are small integers assigned by the        *)
(* harness to distinct addresses.                                          *)
(*                                                                         *)
(* The manager is a grow-only table: nothing the caller does later may     *)
(* change what an earlier call returned.  Obligations over a history h:    *)
(*  I1 same constructor, same key  => same identity, whatever happened in   *)
(*     between (other constructions, derivatives, compile, emptiness);      *)
(*  I2 `==` holds exactly between a term and itself;                        *)
(*  I3 complement is an involution without fixed points;                    *)
(*  I4 the language of the result is that of the construction, in THIS      *)
(*     history (nullable flag and membership of sample words here; the      *)
(*     exact product check of C01 runs on dirty managers too).              *)
(***************************************************************************)
EXTENDS Regex

IsMk(e) == e.k = "mk"
Mks(h)  == {i \in 1..Len(h) : IsMk(h[i])}

I1(h) == \A i, j \in Mks(h) : (i < j /\ h[i].api = h[j].api /\ h[i].key = h[j].key) => h[i].res = h[j].res
I2(h) == \A i \in 1..Len(h) : h[i].k = "eq" => (h[i].eq = (h[i].a = h[i].b) /\ h[i].ptr = (h[i].a = h[i].b))
I3(h) == \A j \in Mks(h) : h[j].api \in {"complement", "re_comp"} =>
            /\ h[j].res # h[j].key[1]
            /\ \A i \in Mks(h) : (i < j /\ h[i].api = h[j].api /\ h[i].res = h[j].key[1]) => h[j].res = h[i].key[1]
(* a history may carry one large shared AST (scale cases); events then refer to it: [ref |-> TRUE, neg |-> b] *)
EvAst(e, shared) == IF "ast" \in DOMAIN e THEN e.ast ELSE IF e.neg THEN [k |-> "not", a |-> shared] ELSE shared
I4s(h, shared) ==
  \A i \in 1..Len(h) : h[i].k = "mem" =>
     LET t == Core(EvAst(h[i], shared)) IN
     \A w \in 1..Len(h[i].words) : h[i].res[w] = Accepts(t, h[i].words[w])
I4(h) == /\ \A i \in Mks(h) : h[i].nullable = Nullable(Core(h[i].ast))
         /\ \A i \in 1..Len(h) : h[i].k = "mem" =>
               \A w \in 1..Len(h[i].words) : h[i].res[w] = Accepts(Core(h[i].ast), h[i].words[w])
         /\ \A i \in 1..Len(h) : h[i].k = "empty" => h[i].res = ~NonEmpty(Core(h[i].ast))
NoPanic(h) == \A i \in 1..Len(h) : h[i].k # "panic"
=============================================================================

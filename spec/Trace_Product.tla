--------------------------- MODULE Trace_Product ---------------------------
(***************************************************************************)
(* Exact language questions about artefacts dumped from the real crate.    *)
(*                                                                         *)
(* A case = construction AST + a finite graph obtained by calling the      *)
(* public API (nodes = iterated derivatives with their `nullable` flag and *)
(* `char_derivative` edges, or automaton states with `is_final` and `next` *)
(* edges) on one character per region (reps) + a list of roots.  A root    *)
(* <<w, s>> claims: node s denotes the left quotient of L(ast) by w.       *)
(* TLC explores the product of the graph with the residual automaton of    *)
(* the AST from every root; "graph node final = residual state final" in   *)
(* every reachable product state  <=>  the claim holds for ALL strings.    *)
(*                                                                         *)
(* The loader walks the cases (K interleaved shards), evaluates the        *)
(* per-case structural obligations, and spawns the roots.  A disagreement  *)
(* does not stop the run: it is printed and that branch is not expanded.   *)
(***************************************************************************)
EXTENDS Integers, Sequences, FiniteSets, TLC, Json, IOUtils, Regex

Rec == ndJsonDeserialize(IOEnv.VH_TRACE)
N   == Len(Rec)
K   == 64

Ast == [i \in 1..N |-> Core(Rec[i].ast)]

VARIABLES mode, i, q, s, tag
vars == <<mode, i, q, s, tag>>

Failed(obs) == {o[1] : o \in {p \in obs : ~p[2]}}
Report(n, bad) == IF bad = {} THEN TRUE ELSE PrintT(<<"VIOL", n, bad>>)

HasGraph(c) == c.op \in {"dgraph", "dgraph3", "automaton"}
RepSet(c) == {c.reps[j] : j \in 1..Len(c.reps)}
NNodes(c) == Len(c.final)

Mem(c, x) == c[1] <= x /\ x <= c[2]

(* ---- structural obligations, evaluated once per case ---- *)
GraphOk(c, n) ==
  /\ Len(c.delta) = NNodes(c)
  /\ \A a \in 1..NNodes(c) : /\ Len(c.delta[a]) = Len(c.reps)
                             /\ \A j \in 1..Len(c.reps) : c.delta[a][j] \in 1..NNodes(c)
  /\ \A r \in 1..Len(c.roots) : c.roots[r].s \in 1..NNodes(c)

(* C02: determinism and totality as structure: per state, ranges sorted and pairwise      *)
(* disjoint; a default successor is present whenever the ranges leave a character          *)
(* uncovered; every successor is a state; stepping never failed (0 = next panicked)         *)
Sorted(rs) == \A a \in 1..Len(rs) : rs[a][1] <= rs[a][2] /\ rs[a][2] <= MaxChar
                                    /\ (a < Len(rs) => rs[a][2] < rs[a + 1][1])
Covered(rs, D) == \A x \in D : \E a \in 1..Len(rs) : Mem(rs[a], x)
DisjointRanges(rs) == /\ \A a \in 1..Len(rs) : rs[a][1] <= rs[a][2] /\ rs[a][2] <= MaxChar
                      /\ \A a, b \in 1..Len(rs) : a # b => (rs[a][2] < rs[b][1] \/ rs[b][2] < rs[a][1])
StateOk(c, st) == /\ DisjointRanges(st.ranges)
                  /\ Covered(st.ranges, RepSet(c)) \/ st.default

(* ---- C03: derivative classes of a node (DESIGN 5 C03 c-f) ---- *)
InClass(cl, cid, x) == IF cid >= 0 THEN cid < Len(cl.ranges) /\ Mem(cl.ranges[cid + 1], x)
                       ELSE \A a \in 1..Len(cl.ranges) : ~Mem(cl.ranges[a], x)
Disjoint(rs) == \A a, b \in 1..Len(rs) : a # b => (rs[a][2] < rs[b][1] \/ rs[b][2] < rs[a][1])
\* characters that decide where the set [a,b] lies: a itself and every range boundary inside it
SetD(cl, a, b) == {x \in {a} \cup {cl.ranges[k][1] : k \in 1..Len(cl.ranges)}
                                 \cup {cl.ranges[k][2] + 1 : k \in 1..Len(cl.ranges)} : a <= x /\ x <= b}
SetInOneClass(cl, a, b) ==
  LET D == SetD(cl, a, b) IN
  \/ \E k \in 1..Len(cl.ranges) : \A x \in D : Mem(cl.ranges[k], x)
  \/ \A x \in D : \A k \in 1..Len(cl.ranges) : ~Mem(cl.ranges[k], x)
ClassOk(c, cl) ==
  LET nr == Len(cl.ranges)
      covered == Covered(cl.ranges, RepSet(c))
      ids == {cl.ids[j] : j \in 1..Len(cl.ids)}
  IN Failed({
     <<"C03:classes_are_disjoint_intervals",
        Disjoint(cl.ranges) /\ \A a \in 1..nr : cl.ranges[a][1] <= cl.ranges[a][2] /\ cl.ranges[a][2] <= MaxChar>>,
     <<"C03:class_ids_cover_alphabet",
        /\ ids = {k - 1 : k \in 1..nr} \cup (IF covered THEN {} ELSE {-1})
        /\ Len(cl.ids) = Cardinality(ids)
        /\ cl.empty_complement = covered /\ cl.nclasses = nr>>,
     <<"C03:class_derivative_of_valid_id", \A j \in 1..Len(cl.cderiv) : cl.cderiv[j].res = "ok" /\ cl.cderiv[j].s \in 1..NNodes(c)>>,
     <<"C03:bad_class_id", \A j \in 1..Len(cl.bad) : cl.bad[j].res = "err:BadClassId" /\ ~cl.bad[j].valid>>,
     <<"C18:start_class_bad_class_id", \A j \in 1..Len(cl.bad) : cl.bad[j].start_class = "err:BadClassId">>,
     <<"C03:set_derivative_defined_iff_one_class",
        \A j \in 1..Len(cl.setd) :
           LET sd == cl.setd[j] IN
           IF SetInOneClass(cl, sd.a, sd.b) THEN sd.res = "ok" /\ sd.s \in 1..NNodes(c)
           ELSE sd.res \notin {"ok", "panic"}>>})
ClassRoots(c, cl) ==       \* class_derivative(e, cid) must be the quotient by EVERY character of the class
  UNION {{[w |-> cl.path \o <<x>>, s |-> cl.cderiv[j].s, tag |-> "C03:class_derivative"] :
             x \in {y \in RepSet(c) : InClass(cl, cl.cderiv[j].cid, y)}} :
         j \in {j \in 1..Len(cl.cderiv) : cl.cderiv[j].res = "ok" /\ cl.cderiv[j].s \in 1..NNodes(c)}}
SetRoots(c, cl) ==
  UNION {{[w |-> cl.path \o <<cl.setd[j].a>>, s |-> cl.setd[j].s, tag |-> "C03:set_derivative"],
          [w |-> cl.path \o <<cl.setd[j].b>>, s |-> cl.setd[j].s, tag |-> "C03:set_derivative"]} :
         j \in {j \in 1..Len(cl.setd) : cl.setd[j].res = "ok" /\ cl.setd[j].s \in 1..NNodes(c)
                                          /\ SetInOneClass(cl, cl.setd[j].a, cl.setd[j].b)}}

Bad(n) ==
  LET c == Rec[n] IN
  CASE c.op = "panic"   -> {c.where}
    [] c.op \in {"trynone", "dgraph_skipped", "automaton_skipped"} -> {}
    [] c.op = "dgraph" ->
         Failed({<<"harness:reps_cover_ast", TermReps(Ast[n]) \subseteq RepSet(c)>>,
                 <<"C01:graph_wellformed", GraphOk(c, n) /\ ~c.capped>>,
                 <<"C01:nullable", c.nullable = Nullable(Ast[n])>>})
    [] c.op = "dgraph3" ->
         Failed({<<"harness:reps_cover_ast", TermReps(Ast[n]) \subseteq RepSet(c)>>,
                 <<"C03:graph_wellformed", GraphOk(c, n) /\ ~c.capped>>,
                 <<"C03:str_derivative_in_closure", \A r \in 1..Len(c.roots) : c.roots[r].s # 0>>})
         \cup UNION {ClassOk(c, c.cls[j]) : j \in 1..Len(c.cls)}
    [] c.op = "automaton" ->
         Failed({<<"harness:reps_cover_ast", TermReps(Ast[n]) \subseteq RepSet(c)>>,
                 <<"C02:next_total", GraphOk(c, n)>>,
                 <<"C02:deterministic_total_structure", \A a \in 1..Len(c.states) : StateOk(c, c.states[a])>>,
                 <<"C02:state_ids", c.ids_ok /\ Len(c.states) = NNodes(c) /\ c.init \in 1..NNodes(c)>>,
                 <<"C02:num_states", c.num_states = NNodes(c)>>,
                 <<"C02:num_final", c.num_final = Cardinality({a \in 1..NNodes(c) : c.final[a]})>>,
                 <<"C02:accepts_is_fold_of_next",
                   \A r \in 1..Len(c.runs) :
                      LET w == c.runs[r].w
                          RunTo[k \in 0..Len(w)] ==
                             IF k = 0 THEN c.init
                             ELSE LET p == RunTo[k - 1]
                                      j == CHOOSE j \in 1..Len(c.reps) : c.reps[j] = w[k]
                                  IN IF p = 0 THEN 0 ELSE c.delta[p][j]
                          end == RunTo[Len(w)]
                      IN (\A k \in 1..Len(w) : w[k] \in RepSet(c)) =>
                           (end # 0 /\ c.runs[r].to = end /\ c.runs[r].acc = c.final[end])>>})
    [] OTHER -> {"unknown_event"}

GraphOk0(c) ==         \* edges well-formed (roots may be missing: reported separately)
  /\ Len(c.delta) = NNodes(c)
  /\ \A a \in 1..NNodes(c) : /\ Len(c.delta[a]) = Len(c.reps)
                             /\ \A j \in 1..Len(c.reps) : c.delta[a][j] \in 1..NNodes(c)
Roots(n) == LET c == Rec[n] IN
            IF HasGraph(c) /\ GraphOk0(c)
            THEN {c.roots[r] : r \in {r \in 1..Len(c.roots) : c.roots[r].s \in 1..NNodes(c)}}
                 \cup (IF c.op = "dgraph3"
                       THEN UNION {ClassRoots(c, c.cls[j]) \cup SetRoots(c, c.cls[j]) : j \in 1..Len(c.cls)}
                       ELSE {})
            ELSE {}

Init == mode = "load" /\ i \in 1..(IF N < K THEN N ELSE K) /\ q = 0 /\ s = 0 /\ tag = ""

Load ==
  /\ mode = "load" /\ i <= N
  /\ \/ /\ Report(i, Bad(i))
        /\ i' = i + K /\ UNCHANGED <<mode, q, s, tag>>
     \/ \E r \in Roots(i) :
          /\ mode' = "prod" /\ i' = i
          /\ q' = RRun(Ast[i], RInit(Ast[i]), r.w)
          /\ s' = r.s /\ tag' = r.tag

Agree == Rec[i].final[s] = RFinal(Ast[i], q)

Explore ==
  /\ mode = "prod"
  /\ IF Agree THEN
        \E j \in 1..Len(Rec[i].reps) :
           /\ q' = RStep(Ast[i], q, Rec[i].reps[j])
           /\ s' = Rec[i].delta[s][j]
           /\ UNCHANGED <<mode, i, tag>>
     ELSE PrintT(<<"VIOL", i, {tag}>>) /\ FALSE

Next == Load \/ Explore
=============================================================================

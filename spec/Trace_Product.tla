--------------------------- MODULE Trace_Product ---------------------------
(***************************************************************************)
(* Exact language questions about artefacts dumped from the real crate.    *)
(*                                                                         *)
(* A case = construction AST + a finite graph obtained by calling the      *)
(* public API (nodes = iterated derivatives with their `nullable` flag and *)
(* `char_derivative` edges, or automaton states with `is_final` and `next` *)
(* edges) on one character per region (reps) + a list of roots.  A root    *)
(* <<w, s>> claims: node s denotes the left quotient of L(ast) by w.       *)
(* TLC explores the product of the graph with the residual automaton of    *)
(* the AST from every root; "graph node final = residual state final" in   *)
(* every reachable product state  <=>  the claim holds for ALL strings.    *)
(*                                                                         *)
(* The loader walks the cases (K interleaved shards), evaluates the        *)
(* per-case structural obligations, and spawns the roots.  A disagreement  *)
(* does not stop the run: it is printed and that branch is not expanded.   *)
(***************************************************************************)
EXTENDS Integers, Sequences, FiniteSets, TLC, Json, IOUtils, Regex

Rec == ndJsonDeserialize(IOEnv.VH_TRACE)
N   == Len(Rec)
K   == 64

Ast == [i \in 1..N |-> Core(Rec[i].ast)]

VARIABLES mode, i, q, s, tag
vars == <<mode, i, q, s, tag>>

Failed(obs) == {o[1] : o \in {p \in obs : ~p[2]}}
Report(n, bad) == IF bad = {} THEN TRUE ELSE PrintT(<<"VIOL", n, bad>>)

HasGraph(c) == c.op \in {"dgraph", "automaton"}
RepSet(c) == {c.reps[j] : j \in 1..Len(c.reps)}
NNodes(c) == Len(c.final)

Mem(c, x) == c[1] <= x /\ x <= c[2]

(* ---- structural obligations, evaluated once per case ---- *)
GraphOk(c, n) ==
  /\ Len(c.delta) = NNodes(c)
  /\ \A a \in 1..NNodes(c) : /\ Len(c.delta[a]) = Len(c.reps)
                             /\ \A j \in 1..Len(c.reps) : c.delta[a][j] \in 1..NNodes(c)
  /\ \A r \in 1..Len(c.roots) : c.roots[r].s \in 1..NNodes(c)

(* C02: determinism and totality as structure: per state, ranges sorted and pairwise      *)
(* disjoint; a default successor is present whenever the ranges leave a character          *)
(* uncovered; every successor is a state; stepping never failed (0 = next panicked)         *)
Sorted(rs) == \A a \in 1..Len(rs) : rs[a][1] <= rs[a][2] /\ rs[a][2] <= MaxChar
                                    /\ (a < Len(rs) => rs[a][2] < rs[a + 1][1])
Covered(rs, D) == \A x \in D : \E a \in 1..Len(rs) : Mem(rs[a], x)
StateOk(c, st) == /\ Sorted(st.ranges)
                  /\ Covered(st.ranges, RepSet(c)) \/ st.default

Bad(n) ==
  LET c == Rec[n] IN
  CASE c.op = "panic"   -> {c.where}
    [] c.op \in {"trynone", "dgraph_skipped", "automaton_skipped"} -> {}
    [] c.op = "dgraph" ->
         Failed({<<"harness:reps_cover_ast", TermReps(Ast[n]) \subseteq RepSet(c)>>,
                 <<"C01:graph_wellformed", GraphOk(c, n) /\ ~c.capped>>,
                 <<"C01:nullable", c.nullable = Nullable(Ast[n])>>})
    [] c.op = "automaton" ->
         Failed({<<"harness:reps_cover_ast", TermReps(Ast[n]) \subseteq RepSet(c)>>,
                 <<"C02:next_total", GraphOk(c, n)>>,
                 <<"C02:deterministic_total_structure", \A a \in 1..Len(c.states) : StateOk(c, c.states[a])>>,
                 <<"C02:state_ids", c.ids_ok /\ Len(c.states) = NNodes(c) /\ c.init \in 1..NNodes(c)>>,
                 <<"C02:num_states", c.num_states = NNodes(c)>>,
                 <<"C02:num_final", c.num_final = Cardinality({a \in 1..NNodes(c) : c.final[a]})>>,
                 <<"C02:accepts_is_fold_of_next",
                   \A r \in 1..Len(c.runs) :
                      LET w == c.runs[r].w
                          RunTo[k \in 0..Len(w)] ==
                             IF k = 0 THEN c.init
                             ELSE LET p == RunTo[k - 1]
                                      j == CHOOSE j \in 1..Len(c.reps) : c.reps[j] = w[k]
                                  IN IF p = 0 THEN 0 ELSE c.delta[p][j]
                          end == RunTo[Len(w)]
                      IN (\A k \in 1..Len(w) : w[k] \in RepSet(c)) =>
                           (end # 0 /\ c.runs[r].to = end /\ c.runs[r].acc = c.final[end])>>})
    [] OTHER -> {"unknown_event"}

Roots(n) == LET c == Rec[n] IN
            IF HasGraph(c) /\ GraphOk(c, n) THEN {c.roots[r] : r \in 1..Len(c.roots)} ELSE {}

Init == mode = "load" /\ i \in 1..(IF N < K THEN N ELSE K) /\ q = 0 /\ s = 0 /\ tag = ""

Load ==
  /\ mode = "load" /\ i <= N
  /\ \/ /\ Report(i, Bad(i))
        /\ i' = i + K /\ UNCHANGED <<mode, q, s, tag>>
     \/ \E r \in Roots(i) :
          /\ mode' = "prod" /\ i' = i
          /\ q' = RRun(Ast[i], RInit(Ast[i]), r.w)
          /\ s' = r.s /\ tag' = r.tag

Agree == Rec[i].final[s] = RFinal(Ast[i], q)

Explore ==
  /\ mode = "prod"
  /\ IF Agree THEN
        \E j \in 1..Len(Rec[i].reps) :
           /\ q' = RStep(Ast[i], q, Rec[i].reps[j])
           /\ s' = Rec[i].delta[s][j]
           /\ UNCHANGED <<mode, i, tag>>
     ELSE PrintT(<<"VIOL", i, {tag}>>) /\ FALSE

Next == Load \/ Explore
=============================================================================

CONSTANTS MaxChar = 1  StrLen = 4
INIT Init
NEXT Next
INVARIANT OrderLaws
INVARIANT SearchLaws
INVARIANT IntLaws
CHECK_DEADLOCK FALSE

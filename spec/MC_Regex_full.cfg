CONSTANTS MaxChar = 1  WordLen = 4  Full = TRUE
INIT Init
NEXT Next
CHECK_DEADLOCK FALSE
POSTCONDITION Done

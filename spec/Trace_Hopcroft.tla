--------------------------- MODULE Trace_Hopcroft ---------------------------
(* Validates refinement runs of the real minimizer, recorded through the     *)
(* cfg-guarded hooks (new / init / pick / refined / done), against the       *)
(* Hopcroft state machine: every recorded round must be a step the           *)
(* specification allows, from the recorded state to the recorded state.      *)
EXTENDS TraceBase, Hopcroft, Dfa

SetOfSeq(s) == {s[i] : i \in 1..Len(s)}
Blocks(ev)  == {SetOfSeq(ev.blocks[i]) : i \in 1..Len(ev.blocks)}
Active(ev)  == {<<SetOfSeq(ev.active[i].b), ev.active[i].c>> : i \in 1..Len(ev.active)}
NerodeClassesOf(dd) == LET E == Nerode(dd) IN {{t \in HStates(dd) : <<s, t>> \in E} : s \in HStates(dd)}

BadRun(e) ==
  LET ev == e.events
      n  == Len(ev)
  IN
  IF n < 3 \/ ev[1].k # "new" \/ ev[2].k # "state" \/ ev[2].what # "init" \/ ev[n].k # "state" \/ ev[n].what # "done"
  THEN {"HOP:trace_shape"}
  ELSE
  LET d == [init |-> 1, final |-> ev[1].final, delta |-> ev[1].delta]
      \* rounds: positions k with ev[k] a pick; ev[k-1] and ev[k+1] are the surrounding snapshots
      picks == {k \in 3..(n - 1) : ev[k].k = "pick"}
      shape == \A k \in 3..(n - 1) : IF k % 2 = 1 THEN ev[k].k = "pick" ELSE (ev[k].k = "state" /\ ev[k].what = "refined")
      last  == ev[n - 1]
  IN
  Failed({<<"HOP:trace_shape", shape /\ n % 2 = 1>>,
          <<"HOP:init_partition", Blocks(ev[2]) = InitP(d)>>,
          <<"HOP:init_splitters", InitWOk(d, Active(ev[2]))>>,
          <<"HOP:picked_splitter_is_active", \A k \in picks : <<SetOfSeq(ev[k].b), ev[k].c>> \in Active(ev[k - 1])>>,
          <<"HOP:pred_class", \A k \in picks : SetOfSeq(ev[k].pred) = Pred(d, SetOfSeq(ev[k].b), ev[k].c)>>,
          <<"HOP:round_refines_as_specified",
             shape => \A k \in picks : Blocks(ev[k + 1]) = Refined(d, Blocks(ev[k - 1]), SetOfSeq(ev[k].b), ev[k].c)>>,
          <<"HOP:round_splitter_update",
             shape => \A k \in picks : RoundWOk(d, Blocks(ev[k - 1]), Active(ev[k - 1]), SetOfSeq(ev[k].b), ev[k].c, Active(ev[k + 1]))>>,
          <<"HOP:stops_only_when_done", Blocks(ev[n]) = Blocks(last) /\ (Active(ev[n]) = {} \/ AllSingletons(Blocks(ev[n])))>>,
          <<"HOP:ends_in_nerode_partition", Blocks(ev[n]) = NerodeClassesOf(d)>>})

Bad(e) ==
  CASE e.op = "hopcroft" -> BadRun(e)
    [] e.op = "panic" -> {e.where}
    [] e.op = "build_failed" -> {"harness:dfa_build_failed"}
    [] OTHER -> {"unknown_event"}

Init == TInit
Next == TNext(Bad)
=============================================================================

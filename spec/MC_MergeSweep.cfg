CONSTANT MaxChar = 4
INIT InitP
NEXT NextP
INVARIANT MergeCorrect
INVARIANT PushPrecondition
INVARIANT LiteralOnlySeparated
CHECK_DEADLOCK FALSE

CONSTANTS MaxStates = 4  NLetters = 1
INIT Init
NEXT Next
INVARIANT PartitionOk
INVARIANT NeverSeparatesEquivalent
INVARIANT EndsInNerode
INVARIANT ActiveAreBlocks
CHECK_DEADLOCK FALSE

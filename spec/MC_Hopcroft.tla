----------------------------- MODULE MC_Hopcroft -----------------------------
(* U1: every behaviour of the Hopcroft state machine (all resolutions of the *)
(* choice of splitter and of the half that becomes active) on every complete  *)
(* DFA with <= MaxStates states over NLetters letters ends in the Myhill-      *)
(* Nerode partition, never separates equivalent states, and terminates.        *)
EXTENDS Hopcroft, Dfa, TLC

CONSTANTS MaxStates, NLetters

VARIABLES d, P, W, done
vars == <<d, P, W, done>>

DfasOf(n) == {[init |-> 1, final |-> f, delta |-> dl] :
                 f \in [1..n -> BOOLEAN], dl \in [1..n -> [1..NLetters -> 1..n]]}
Cand(dd) == {<<B, c>> : B \in SUBSET HStates(dd), c \in HLetters(dd)}

Init == /\ d \in UNION {DfasOf(n) : n \in 1..MaxStates}
        /\ P = InitP(d)
        /\ W \in {w \in SUBSET {<<B, c>> : B \in InitP(d), c \in HLetters(d)} : InitWOk(d, w)}
        /\ done = FALSE

Next ==
  /\ ~done /\ d' = d
  /\ IF W = {} \/ AllSingletons(P) THEN done' = TRUE /\ UNCHANGED <<P, W>>
     ELSE \E sp \in W :
            /\ P' = Refined(d, P, sp[1], sp[2])
            /\ W' \in {w \in SUBSET {<<E, a>> : E \in Refined(d, P, sp[1], sp[2]), a \in HLetters(d)} :
                          RoundWOk(d, P, W, sp[1], sp[2], w)}
            /\ done' = FALSE

NerodeClasses(dd) == LET E == Nerode(dd) IN {{t \in HStates(dd) : <<s, t>> \in E} : s \in HStates(dd)}

PartitionOk == IsPartition(d, P) /\ \A B \in P : B \subseteq Finals(d) \/ B \cap Finals(d) = {}
NeverSeparatesEquivalent == \A p \in Nerode(d) : BlockOf(P, p[1]) = BlockOf(P, p[2])
EndsInNerode == done => P = NerodeClasses(d)
ActiveAreBlocks == \A sp \in W : sp[1] \in P /\ Pred(d, sp[1], sp[2]) # {}
=============================================================================

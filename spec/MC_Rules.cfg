CONSTANTS MaxChar = 1  WordLen = 4  Full = FALSE
INIT InitR
NEXT NextR
CHECK_DEADLOCK FALSE
POSTCONDITION DoneR

----------------------------- MODULE Partitions -----------------------------
(***************************************************************************)
(* Partitions of the alphabet (CharPartition of character_sets.rs).        *)
(*                                                                         *)
(* Abstractly a partition is a finite set P of pairwise disjoint intervals *)
(* <<lo,hi>>; its classes are the intervals plus the complementary class   *)
(* (everything in no interval), which may be empty or non-contiguous.      *)
(* Everything is stated by quantifying over characters of a domain D: the  *)
(* whole alphabet in small-scope models, region representatives otherwise  *)
(* (Chars.Reps; the region lemma for these predicates is checked by        *)
(* MC_Partitions).                                                         *)
(*                                                                         *)
(* PartitionObj is the state machine of the mutable object: New, FromSet,  *)
(* TryFromList, Push (enabled only under push's documented precondition).  *)
(***************************************************************************)
EXTENDS Chars, SequencesExt

SeqSet(s) == {s[i] : i \in 1..Len(s)}

PairwiseDisjoint(P) == \A c, d \in P : c # d => (c[2] < d[1] \/ d[2] < c[1])
IsPartition(P) == (\A c \in P : IsInterval(c)) /\ PairwiseDisjoint(P)

\* list form: as observed through get(0..len-1) / ranges()
SortedDisjoint(s) == \A i \in 1..Len(s) : IsInterval(s[i]) /\ (i < Len(s) => s[i][2] < s[i + 1][1])

InSome(P, x)   == \E c \in P : Mem(c, x)
CompEmpty(P, D) == \A x \in D : InSome(P, x)

\* class of a character: an interval of P, or "comp"
ClassOf(P, x) == IF InSome(P, x) THEN CHOOSE c \in P : Mem(c, x) ELSE <<-1, -1>>

(* Where does the set S = [a,b] lie?  D must contain a and every boundary of P inside S. *)
CoverIn(P, S, c, D) == \A x \in D : Mem(S, x) => Mem(c, x)
CoverDisjoint(P, S, D) == \A x \in D : Mem(S, x) => ~InSome(P, x)
Cover(P, S, D) == IF \E c \in P : CoverIn(P, S, c, D) THEN <<"in", CHOOSE c \in P : CoverIn(P, S, c, D)>>
                  ELSE IF CoverDisjoint(P, S, D) THEN <<"disjoint">> ELSE <<"overlaps">>
CoverDomain(P, S) == {x \in {S[1]} \cup {c[1] : c \in P} \cup {c[2] + 1 : c \in P} : Mem(S, x)}

-----------------------------------------------------------------------------
(* The mutable object.  State: the list of intervals in the order given.  *)
VARIABLE part
PNew            == part' = <<>>
PFromSet(c)     == IsInterval(c) /\ part' = <<c>>
PushEnabled(c)  == IsInterval(c) /\ (IF part = <<>> THEN TRUE ELSE part[Len(part)][2] < c[1])   \* documented precondition
PPush(c)        == PushEnabled(c) /\ part' = Append(part, c)
\* try_from_list succeeds exactly on pairwise disjoint input; the object is then the sorted list
SortedOf(P)     == SortSeq(SetToSeq(P), LAMBDA c, d : c[1] < d[1])
ListAccepted(l) == (\A i \in 1..Len(l) : IsInterval(l[i]))
                   /\ \A i, j \in 1..Len(l) : i # j => (l[i][2] < l[j][1] \/ l[j][2] < l[i][1])
PTryFromList(l) == ListAccepted(l) /\ part' = SortedOf(SeqSet(l))

-----------------------------------------------------------------------------
(* Observable projection of an object and what it must satisfy for the     *)
(* abstract partition P.  o = [ivs, witness, empty_comp, nclasses, ids,    *)
(* picks] as logged by the harness; class ids are i for Interval(i), -1    *)
(* for Complement.                                                         *)
ProjObligations(P, o, D) ==
  LET n   == Cardinality(P)
      ce  == CompEmpty(P, D)
      ids == IF ce THEN [i \in 1..n |-> i - 1] ELSE [i \in 1..n + 1 |-> IF i <= n THEN i - 1 ELSE -1]
  IN {<<"intervals", SortedDisjoint(o.ivs) /\ SeqSet(o.ivs) = P /\ o.len = n>>,
      <<"empty_complement", o.empty_comp = ce>>,
      <<"complement_witness", ~ce => (o.witness \in 0..MaxChar /\ ~InSome(P, o.witness))>>,
      <<"num_classes", o.nclasses = n + (IF ce THEN 0 ELSE 1)>>,
      <<"class_ids", SeqSet(o.ids) = SeqSet(ids) /\ Len(o.ids) = Len(ids)>>,
      \* picks: exactly one member of every non-empty class (the property does not fix their order)
      <<"picks", /\ Len(o.picks) = Len(ids)
                 /\ \A c \in P : Cardinality({j \in 1..Len(o.picks) : Mem(c, o.picks[j])}) = 1
                 /\ ~ce => Cardinality({j \in 1..Len(o.picks) : o.picks[j] \in 0..MaxChar /\ ~InSome(P, o.picks[j])}) = 1>>,
      <<"valid_class_id", \A j \in 1..Len(o.valid) :
                              o.valid[j].v = (IF o.valid[j].cid >= 0 THEN o.valid[j].cid < n ELSE ~ce)>>}

\* class_of_char(x) = cid, against the list o.ivs already shown to be the sorted P
ObClassOfChar(P, ivs, x, cid) ==
  IF InSome(P, x) THEN cid >= 0 /\ cid < Len(ivs) /\ Mem(ivs[cid + 1], x) ELSE cid = -1

\* interval_cover / class_of_set / good_char_set on S = <<a,b>>; res = "in:i" | "disjoint" | "overlaps"
ObCover(P, ivs, S, q) ==
  LET cv == Cover(P, S, CoverDomain(P, S)) IN
  CASE cv[1] = "in"       -> /\ q.cover = "in" /\ q.idx >= 0 /\ q.idx < Len(ivs) /\ ivs[q.idx + 1] = cv[2]
                             /\ q.cls = "ok" /\ q.cid = q.idx /\ q.good
    [] cv[1] = "disjoint" -> q.cover = "disjoint" /\ q.cls = "ok" /\ q.cid = -1 /\ q.good
    [] OTHER              -> q.cover = "overlaps" /\ q.cls = "err:AmbiguousCharSet" /\ ~q.good

-----------------------------------------------------------------------------
(* merge_partitions: m must be the coarsest common refinement of P1, P2    *)
(* (DESIGN 5 C12, obligations a-f).                                        *)
Pair(P1, P2, x) == <<ClassOf(P1, x), ClassOf(P2, x)>>
MergeObligations(P1, P2, M, mo, D) ==
  LET ce == CompEmpty(M, D) IN
  {<<"refines_both", \A x, y \in D : ClassOf(M, x) = ClassOf(M, y) => Pair(P1, P2, x) = Pair(P1, P2, y)>>,
   <<"sorted_disjoint", SortedDisjoint(mo.ivs) /\ SeqSet(mo.ivs) = M>>,
   <<"maximal", \A y \in D : (y > 0 /\ Pair(P1, P2, y - 1) = Pair(P1, P2, y)) => ClassOf(M, y - 1) = ClassOf(M, y)>>,
   <<"complement_is_intersection", \A x \in D : ~InSome(M, x) <=> (~InSome(P1, x) /\ ~InSome(P2, x))>>,
   <<"complement_witness", mo.empty_comp = ce /\ (~ce => (mo.witness \in 0..MaxChar /\ ~InSome(M, mo.witness)))>>}

(* the literal "exactly when" of the property: same class in P1 and in P2 => same class in M. *)
(* It fails by representation whenever a class is cut by a character of another class       *)
(* (only the complementary class can be non-contiguous): those pairs are identified           *)
(* structurally -- some z strictly between x and y has a different (class1, class2) pair.     *)
LiteralViolations(P1, P2, M, D) ==
  {xy \in D \X D : xy[1] < xy[2] /\ Pair(P1, P2, xy[1]) = Pair(P1, P2, xy[2]) /\ ClassOf(M, xy[1]) # ClassOf(M, xy[2])}
Separated(P1, P2, x, y, D) == \E z \in D : x < z /\ z < y /\ Pair(P1, P2, z) # Pair(P1, P2, x)
=============================================================================

----------------------------- MODULE MC_Manager -----------------------------
(* U2 for Manager: TLC enumerates histories                                  *)
(*     prefix of <= MaxPrefix disturbing calls  .  target construction       *)
(* (the harness then re-issues every earlier construction and queries the    *)
(* target) and emits one JSON line per history.  The disturbing calls create *)
(* the target's operands, their complements and super-terms in every order,  *)
(* take derivatives, compile, test emptiness and enumerate derivatives --    *)
(* all of which allocate ids and fill the derivative cache.  The targets are *)
(* the constructions whose simplification depends on id order: unions and    *)
(* intersections of 2-3 operands with x, ~x, eps, all, none in every         *)
(* position, subsumed operands, differences.                                 *)
EXTENDS Integers, Sequences, TLC, Json

CONSTANT MaxPrefix

A == 97  B == 98
X == [k |-> "chr", c |-> A]
Y == [k |-> "chr", c |-> B]
Not(t) == [k |-> "not", a |-> t]
Alt(xs) == [k |-> "alt", xs |-> xs]
And(xs) == [k |-> "and", xs |-> xs]
Cat(xs) == [k |-> "cat", xs |-> xs]
Star(t) == [k |-> "star", a |-> t]
Eps == [k |-> "eps"]   All == [k |-> "all"]   None == [k |-> "none"]   SigmaPlus == [k |-> "sigmaplus"]
AB == [k |-> "rng", lo |-> A, hi |-> B]

Mk(t) == [do |-> "mk", t |-> t, c |-> 0]
Disturbers == <<
  Mk(X), Mk(Y), Mk(Not(X)), Mk(Not(Y)), Mk(Alt(<<X, Y>>)), Mk(Alt(<<Y, X>>)), Mk(And(<<X, Not(Y)>>)),
  Mk(Cat(<<X, Y>>)), Mk(Star(X)), Mk(Not(Not(X))), Mk(Alt(<<Not(X), Y>>)), Mk(AB),
  \* re-creating the predefined terms of a manager (none, eps, all, sigma_plus) by other routes
  Mk([k |-> "plus", a |-> [k |-> "allchar"]]), Mk(Not(Eps)), Mk(Star([k |-> "allchar"])), Mk(Not(None)),
  Mk(Cat(<<[k |-> "allchar"], All>>)),
  [do |-> "deriv", t |-> Alt(<<X, Cat(<<Y, X>>)>>), c |-> A],
  [do |-> "compile", t |-> Cat(<<X, Star(Y)>>), c |-> 0],
  [do |-> "empty", t |-> And(<<X, Y>>), c |-> 0],
  [do |-> "iter", t |-> Star(Alt(<<X, Y>>)), c |-> 0] >>

Operands == {X, Not(X), Y, Eps, All, None, SigmaPlus}      \* incl. every predefined term of a manager
Targets ==
  {Alt(<<p, q>>) : p, q \in Operands} \cup {And(<<p, q>>) : p, q \in Operands}
  \cup {Alt(<<p, q, r>>) : p, q, r \in {X, Not(X), Y}} \cup {And(<<p, q, r>>) : p, q, r \in {X, Not(X), Y}}
  \cup {Alt(<<X, AB>>), Alt(<<AB, X>>), And(<<X, AB>>), And(<<AB, Not(X)>>), Alt(<<Not(AB), Not(X)>>),
        [k |-> "diff", a |-> AB, xs |-> <<X>>], [k |-> "diff", a |-> X, xs |-> <<Eps>>], [k |-> "diff", a |-> AB, xs |-> <<Eps>>],
        And(<<Cat(<<[k |-> "allchar"], SigmaPlus>>), Cat(<<[k |-> "allchar"], X>>)>>), [k |-> "diff", a |-> All, xs |-> <<X, Not(X)>>],
        [k |-> "diff", a |-> Alt(<<X, Y>>), xs |-> <<Y, None>>],
        Not(Alt(<<X, Not(X)>>)), Alt(<<Star(X), Eps>>), And(<<Star(X), Eps>>), Cat(<<Alt(<<X, Eps>>), All>>),
        Alt(<<Alt(<<X, Y>>), Not(Alt(<<Y, X>>))>>), And(<<And(<<X, Not(Y)>>), Not(And(<<X, Not(Y)>>))>>)}

VARIABLES prefix, done
Init == prefix = <<>> /\ done = FALSE
Next ==
  /\ ~done
  /\ \/ /\ Len(prefix) < MaxPrefix
        /\ \E i \in 1..Len(Disturbers) : prefix' = Append(prefix, Disturbers[i])
        /\ done' = FALSE
     \/ /\ \A t \in Targets : PrintT(ToJson([prefix |-> prefix, target |-> t]))
        /\ done' = TRUE /\ prefix' = prefix
=============================================================================

-------------------------- MODULE Trace_Components --------------------------
(* Validates runs of the private building blocks (TLC-generated operation    *)
(* sequences executed on the real types) against Components.tla: the result  *)
(* of every operation and the observable state after it.                     *)
EXTENDS TraceBase, Components

SetOf(s) == {s[i] : i \in 1..Len(s)}

BadFastSet(e) ==
  LET run == RunFrom(FsStep, {}, e.ops, 1) IN
  Failed({<<"CMP:fastset", \A k \in 1..Len(e.ops) :
              LET S == run[k][1] o == e.steps[k] IN
              /\ o.res = run[k][2]
              /\ o.card = Cardinality(S) /\ SetOf(o.iter) = S /\ o.n_iter = Cardinality(S) /\ SetOf(o.members) = S>>})

BadBfsQueue(e) ==
  LET run == RunFrom(BqStep, <<<<>>, {}>>, e.ops, 1) IN
  Failed({<<"CMP:bfsqueue", \A k \in 1..Len(e.ops) :
              LET st == run[k][1] o == e.steps[k] IN
              o.res = run[k][2] /\ o.len = Len(st[1]) /\ o.empty = (st[1] = <<>>)>>})

BadLabeledQueue(e) ==
  LET run == RunFrom(LqStep, LqInit(0), e.ops, 1) IN
  Failed({<<"CMP:labeledqueue", \A k \in 1..Len(e.ops) :
              LET st == run[k][1] pred == st[2] o == e.steps[k] IN
              /\ o.res = run[k][2] /\ o.empty = (st[1] = <<>>)
              /\ \A j \in 1..Len(o.paths) :
                    LET p == o.paths[j] IN
                    /\ p.seen = (p.n \in DOMAIN pred) /\ p.visited = p.seen
                    /\ p.seen => p.path = LqPath(pred, p.n)>>})

(* BFS of a graph through the real LabeledQueue *)
RECURSIVE ReachN(_, _, _), DistFix(_, _, _)
Succ(e, n, lb) == e.succ[n + 1][lb + 1]
ReachN(e, fr, seen) == IF fr = {} THEN seen
                       ELSE LET nx == {Succ(e, n, lb) : n \in fr, lb \in 0..1} \ seen IN ReachN(e, nx, seen \cup nx)
\* distance from node 0 by level sets
DistFix(e, levels, seen) ==
  LET fr == levels[Len(levels)]
      nx == {Succ(e, n, lb) : n \in fr, lb \in 0..1} \ seen
  IN IF nx = {} THEN levels ELSE DistFix(e, Append(levels, nx), seen \cup nx)
Dist(e, n) == LET lv == DistFix(e, <<{0}>>, {0}) IN (CHOOSE k \in 1..Len(lv) : n \in lv[k]) - 1
RECURSIVE WalkE(_, _, _)
WalkE(e, n, path) == IF path = <<>> THEN n ELSE WalkE(e, Succ(e, n, Head(path)), Tail(path))
BadBfs(e) ==
  LET R == ReachN(e, {0}, {0}) IN
  Failed({<<"CMP:bfs_visits_reachable_once", SetOf(e.order) = R /\ Len(e.order) = Cardinality(R)>>,
          <<"CMP:bfs_order_is_breadth_first", \A i, j \in 1..Len(e.order) : i < j => Dist(e, e.order[i]) <= Dist(e, e.order[j])>>,
          <<"CMP:bfs_paths", \A j \in 1..Len(e.paths) :
               LET p == e.paths[j] IN
               /\ p.seen = (p.n \in R)
               /\ p.seen => /\ WalkE(e, 0, p.path) = p.n                       \* the labels spell a path to the node
                            /\ Len(p.path) = Dist(e, p.n)                       \* and a shortest one
                            /\ \A k \in 1..Len(p.path) : WalkE(e, 0, SubSeq(p.path, 1, k - 1)) = p.nodes[k]>>})

BadTable(e) ==
  Failed({<<"CMP:compact_table_eval",
             /\ e.num_states = e.n /\ e.alphabet_size = e.m
             /\ \A s \in 0..(e.n - 1) : \A c \in 0..(e.m - 1) : e.cells[s + 1][c + 1] = CtEval(e, s, c)>>})

RECURSIVE PtRun(_, _, _, _)
PtRun(blocks, stepsIn, k, acc) ==
  IF k > Len(stepsIn) THEN acc
  ELSE IF stepsIn[k].i > Len(blocks) THEN PtRun(blocks, stepsIn, k + 1, Append(acc, <<blocks, <<0, 0>>, TRUE>>))
  ELSE LET r == PtRefine(blocks, stepsIn[k].i, SetOf(stepsIn[k].X)) IN
       PtRun(r[1], stepsIn, k + 1, Append(acc, <<r[1], r[2], FALSE>>))
BadPartition(e) ==
  LET run == PtRun(<<0..(e.n - 1)>>, e.steps_in, 1, <<>>) IN
  Failed({<<"CMP:partition_refine_block", \A k \in 1..Len(e.steps) :
              LET o == e.steps[k] blocks == run[k][1] IN
              IF run[k][3] THEN o.skipped
              ELSE /\ ~o.skipped /\ <<o.r1, o.r2>> = run[k][2]
                   /\ Len(o.blocks) = Len(blocks) /\ \A b \in 1..Len(blocks) : SetOf(o.blocks[b]) = blocks[b]
                   /\ o.index = Len(blocks)
                   /\ \A x \in 0..(e.n - 1) : x \in blocks[o.ids[x + 1]]
                   /\ \A b \in 1..Len(blocks) : o.sizes[b] = Cardinality(blocks[b])>>})

Bad(e) ==
  CASE e.op = "panic" -> {e.where}
    [] e.op = "cmp" /\ e.kind = "fastset" -> BadFastSet(e)
    [] e.op = "cmp" /\ e.kind = "bfsqueue" -> BadBfsQueue(e)
    [] e.op = "cmp" /\ e.kind = "labeledqueue" -> BadLabeledQueue(e)
    [] e.op = "cmp" /\ e.kind = "bfs" -> BadBfs(e)
    [] e.op = "cmp" /\ e.kind = "table" -> BadTable(e)
    [] e.op = "cmp" /\ e.kind = "partition" -> BadPartition(e)
    [] OTHER -> {"unknown_event"}

Init == TInit
Next == TNext(Bad)
=============================================================================

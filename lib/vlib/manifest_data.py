"""Text that goes into MANIFEST.json (tools/gen_manifest.py)."""

SETUP = "cd /verif && bin/setup"

HOOKS = {
    "guard": "aws_smt_strings_verif",
    "enable": "RUSTFLAGS --cfg aws_smt_strings_verif via /verif/harness/.cargo/config.toml (the harness depends on /repo by path and rebuilds it from the working tree)",
    "baseline_off_cmd": "cd /repo && cargo test --workspace --no-fail-fast --offline",
    "source_commits": [],
    "add_only": True,
}

NOTES = ("Every check: cargo-builds /verif/harness against /repo's working tree, drives the real crate, and has TLC "
         "judge the recorded events / dumped artefacts against the TLA+ specification in /verif/spec "
         "(and runs the design-level MC_* models). Exit 0/1/2 as described in DESIGN.md section 10.")

CLAIMED = {
    "C20": {
        "text": "TLC evaluates the set-theoretic definition of every CharSet operation (module Chars) on every call the harness makes on the real crate: all pairs/triples of intervals of a block-embedded small scope that contains every order/adjacency pattern of <= 3 intervals (including 0 and 0x2FFFF as end points) plus seeded random real intervals; a design-level model (MC_Chars) checks the closed forms and the region lemma that makes the real-alphabet quantifiers finite.",
        "ref": "5 C20, 2.4",
        "note": "Complete small scope + regions, not a proof over all 2^36 interval pairs. Trusted: TLC, the Json module, Debug formatting of CharSet for reading result end points.",
        "technique": "TLA+ trace validation with TLC (set-theoretic oracle) + TLC small-scope model of the region lemma",
    },
}

NOT_YET = {}

"""Text that goes into MANIFEST.json (tools/gen_manifest.py)."""

SETUP = "cd /verif && bin/setup"

HOOKS = {
    "guard": "aws_smt_strings_verif",
    "enable": "RUSTFLAGS --cfg aws_smt_strings_verif via /verif/harness/.cargo/config.toml (the harness depends on /repo by path and rebuilds it from the working tree)",
    "baseline_off_cmd": "cd /repo && cargo test --workspace --no-fail-fast --offline",
    "source_commits": ["e574610", "1ee3f09", "02bb657"],
    "add_only": True,
}

NOTES = ("Every check: cargo-builds /verif/harness against /repo's working tree, drives the real crate, and has TLC "
         "judge the recorded events / dumped artefacts against the TLA+ specification in /verif/spec "
         "(and runs the design-level MC_* models). Exit 0/1/2 as described in DESIGN.md section 10.")

CLAIMED_C20 = {
        "text": "TLC evaluates the set-theoretic definition of every CharSet operation (module Chars) on every call the harness makes on the real crate: all pairs/triples of intervals of a block-embedded small scope that contains every order/adjacency pattern of <= 3 intervals (including 0 and 0x2FFFF as end points) plus seeded random real intervals; a design-level model (MC_Chars) checks the closed forms and the region lemma that makes the real-alphabet quantifiers finite.",
        "ref": "5 C20, 2.4",
        "note": "Complete small scope + regions, not a proof over all 2^36 interval pairs. Trusted: TLC, the Json module, Debug formatting of CharSet for reading result end points.",
        "technique": "TLA+ trace validation with TLC (set-theoretic oracle) + TLC small-scope model of the region lemma",
    }

T_PRODUCT = "TLA+ trace validation with TLC: exact product exploration of dumped artefacts against the residual automaton of the construction AST"
T_TRACE = "TLA+ trace validation with TLC (implementation -> specification), small-scope + seeded random drivers"
T_GEN = "TLC-generated behaviours of the TLA+ state machine replayed on the crate, every step judged by TLC trace validation"

def _c(text, ref, note, technique):
    return {"text": text, "ref": ref, "note": note, "technique": technique}

BASE_NOTE = ("Trusted: TLC and the CommunityModules Json reader, the TLA+ definitions of the SMT-LIB semantics (short, and cross-checked "
             "by design-level MC_* models run inside the check), the Rust harness (no oracle logic: it builds inputs, calls the public API and serialises). ")

CLAIMED = {
    "C01": _c("Every construction program of the generated families (all of depth <= 1 over 18 atoms, stratified depth 2, second alphabet layout, semantically-empty family, seeded random depth <= 5; fresh and dirty managers; ReManager methods and re_* wrappers) is compared with the SMT-LIB denotation of its AST: TLC explores the product of the term's derivative graph (obtained by calling char_derivative/nullable) with the specification's residual automaton, which decides membership for ALL strings, plus str_in_re on all short words and the nullable flag; every single constructor call on the real terms (trees read through an accessor hook) is also compared, exactly, with the SMT-LIB meaning of the call on the languages of its real arguments, and structurally (NOTE level) with the executable model of the constructors (Constructors.tla; MC_Constructors in the thorough tier). MC_Regex validates the residual automaton against the denotational semantics.",
              "5 C01, 2.4, App. A", BASE_NOTE + "Exact per generated case; the quantifier over programs is discharged by enumeration/sampling, not proof. Cases above a residual-automaton cost limit are checked on bounded words only.", T_PRODUCT),
    "C02": _c("Every automaton returned by compile / try_compile(Some) for the generated program families is dumped by calling next/is_final on one character per region (all 196608 characters for a sample) and explored in product with the residual automaton of the AST: language equality for all strings; totality of next, structural determinism/totality per state, counters and accepts/str_next folds are checked per case.",
              "5 C02", BASE_NOTE + "Exact per generated case (all strings; characters via regions, literally all characters on a sample).", T_PRODUCT),
    "C03": _c("For the root and first derivatives of every generated term TLC spawns one product root per (derivative class, every representative character of the class incl. both end points), per accepted set [a,b] (both end points) and per str_derivative word: the returned term must be the left quotient for all continuations; class list covers the alphabet, BadClassId on invalid ids, set_derivative is defined exactly when the set lies in one class (set-theoretic cover over boundary points); every derivative step on real terms is additionally compared with the left quotient exactly and, one level at a time, with the model of compute_derivative (NOTE level).",
              "5 C03", BASE_NOTE + "Exact per case; sets range over all pairs of boundary points of the classes (+-1, 0, 0x2FFFF).", T_PRODUCT),
    "C04": _c("Every complete DFA with <= 3 states over 2 letters (TLC-enumerated by MC_Dfa, 5898) is built through AutomatonBuilder in three styles under block embeddings and minimized; plus seeded random DFAs (<= 12 states, <= 4 letters) and compiled automata. Per case TLC decides by fixpoints on the dumps: language preserved, no two result states Nerode-equivalent, result size = Myhill-Nerode index when all states are reachable, initial/final/counter consistency; a panic is a violation.",
              "5 C04", BASE_NOTE + "Exact per automaton; exhaustive to 3 states x 2 letters, sampled beyond.", T_GEN),
    "C05": _c("is_empty_re and get_string (both call orders) on the generated families plus the semantically-empty family under two alphabet layouts, on derivatives after their root was searched, and in histories of queries on neighbouring terms of one manager (each asked twice); TLC decides emptiness of the AST exactly (reachability closure in the residual automaton) and checks the witness against the AST, membership test and compiled automaton.",
              "5 C05", BASE_NOTE + "Exact per case.", T_TRACE),
    "C06": _c("Every call of the ten string functions on subjects <= 4 / patterns <= 2(3) over two letters with boundary integers (i32::MIN..i32::MAX) and seeded random real strings is compared by TLC with the SMT-LIB 2.6 definitions transcribed in SmtStrings.tla (internal consistency of the definitions: MC_Strings).",
              "5 C06", BASE_NOTE + "Bounded small scope (functions compare characters only for equality) + random; not a proof over all strings.", T_TRACE),
    "C07": _c("TLC enumerates histories (prefix of disturbing constructor/derivative/compile/emptiness calls . id-order-sensitive target) from MC_Manager; the harness executes each on a fresh ReManager, a fresh thread-local manager and a dirty one, re-issues every construction and logs identities; TLC checks on every history: same constructor+arguments => same identity, == iff same object, complement involution without fixed point, and the language (nullable, membership, exact emptiness) equals the AST denotation in that history; plus long random histories.",
              "5 C07", BASE_NOTE + "Histories exhaustive to prefix depth 2 over a 16-call pool x 140 targets (sampled 1/8 in the quick tier), random beyond.", T_GEN),
    "C08": _c("parse_smt_literal on every prefix of every text <= 4(5) over the 8 critical symbols, the escape-attempt family and random texts is compared with the grammar-level Decode and step by step with the LiteralParser state machine (proved equal on the small scope by MC_Literals); Display/smt_char_as_string/char_to_smt outputs must be printable ASCII, double quotes, and decode back to the original string (content spelling escapes, single code points incl. all boundaries).",
              "5 C08", BASE_NOTE + "Bounded small scope + escape-directed families; single code points stride-sampled in quick, all in thorough.", T_TRACE),
    "C09": _c("str_lt/str_le on all pairs of strings <= 3 over 3 letters, str_to_int on digit strings around every power of ten / 2^31 / 2^32, from_int/to_int round trips, from_code/to_code for EVERY code 0..0x2FFFF+64, validated by TLC against SmtStrings.tla; the same driver is built and run in the dev profile (overflow checks on) and the release profile (off).",
              "5 C09", BASE_NOTE + "Boundary-directed; both build configurations exercised on every run.", T_TRACE),
    "C10": _c("str_replace_re / str_replace_re_all through the wrappers (fresh and long-lived thread-local managers) for all depth <= 1 patterns over 7 atoms, sampled depth 2 and random patterns on all subjects <= 3 (sample of 4/5) over {a,b}: TLC computes the leftmost-then-shortest match with the residual automaton (checked against the SMT-LIB clause on Matches by MC_Regex) and compares results.",
              "5 C10", BASE_NOTE + "Bounded small scope.", T_TRACE),
    "C11": _c("TLC enumerates every behaviour of the PartitionObj state machine over 0..6 (New/FromSet + enabled Push; TryFromList on every list of <= 3 intervals in every order); the harness replays them under block embeddings, logging the projection after every action and class_of_char / interval_cover / class_of_set / good_char_set on all block-aligned and interior query points; TLC judges with the set-theoretic definitions of Partitions.tla; plus random real partitions and full-alphabet scans.",
              "5 C11, 2.4", BASE_NOTE + "Complete small scope (every order/adjacency pattern of <= 3 intervals) + regions.", T_GEN),
    "C12": _c("merge_partitions on ordered pairs of all TLC-generated partitions of 0..6 (every 40th pair quick / all 372100 thorough) under block embeddings, merge_partition_list on all permutations of triples, [] and neutral element, random real partitions: refinement of both, sorted/disjoint, maximality between adjacent characters, complement = intersection with witness; the literal 'exactly when' reading is evaluated too and its representation-induced failures are a structurally identified known finding.",
              "5 C12, 6 F9", BASE_NOTE + "Complete small scope + regions. One open known finding (F9).", T_GEN),
    "C13": _c("TLC enumerates call sequences of the Builder state machine (MC_Builder: <= 2(3) transitions of state 0 in every order over the six labels of 0..2, defaults incl. overriding, small completions of states 1 and 2, final flags); the harness replays them under block embeddings; TLC recomputes the verdict class (MustReject/MustAccept/Either) from the recorded calls and, on Ok, checks initial state, finals, counters and next = SpecDelta on every region representative; plus random sequences with holes/overlaps/shuffled order.",
              "5 C13", BASE_NOTE + "Exhaustive call sequences of the bounded model (quick: all accept/either + 1/3 of rejects).", T_GEN),
    "C14": _c("On the C04 automaton families: remove_unreachable_states must be a renaming of exactly the reachable part (synchronous product is a bijection onto all result states, same language); combined_char_partition sound, pick_alphabet one per class in order, every cell of compile_successors = next, edges/final_states/counters consistent, char_set_next by set-theoretic cover.",
              "5 C14", BASE_NOTE + "Exact per automaton (all cells, all states, all regions).", T_GEN),
    "C15": _c("Every LoopRange operation on all pairs of ranges with parameters <= 5(6) and all factors is judged by the set semantics on a window derived from the arguments; random parameters < 2^15 by closed forms proved equivalent on the small scope by MC_LoopRanges (which also checks the window argument and the gap criterion behind mk_loop's flattening rule).",
              "5 C15", BASE_NOTE + "Complete small scope; closed forms beyond; values >= 2^31 outside TLC's integers.", T_TRACE),
    "C16": _c("included_in on factor pairs, random pattern pairs (<= 4 factors, with complement/union/intersection), widening pairs and sub-term pairs; whenever the answer is true TLC decides L(r) subset L(s) exactly (emptiness of r & ~s).",
              "5 C16", BASE_NOTE + "Exact per pair; false answers are not judged (the property gives them no meaning).", T_TRACE),
    "C17": _c("Every public SmtString constructor on boundary / swept inputs (From<char> over U+0000..U+10FFFF, strings mixing planes, integer slices/vectors/arrays), parse_smt_literal, and the result of every str_* call, literal and get_string in the C06/C08/C05 traces must be well formed, keep valid code points, replace out-of-range integers by 0xFFFD, and be usable as a regular expression without panic.",
              "5 C17", BASE_NOTE + "Per string exact; character sweep strided in quick, complete in thorough.", T_TRACE),
    "C18": _c("start_char on every region representative and start_class on every valid/invalid class id (both call orders) for the C01/C05 families; oracle: exact non-emptiness of the left quotient by closure in the residual automaton.",
              "5 C18", BASE_NOTE + "Exact per case.", T_TRACE),
    "C19": _c("iter_derivatives listed twice (identity lists), closedness under char_derivative on every region representative, BFS-generation order, try_compile at bounds 0, L-1, L, L+1, usize::MAX and compile state counts, on the C01 families plus loops with counters up to 40.",
              "5 C19", BASE_NOTE + "Exact per expression (characters via regions); > 1500 derivatives: counts only.", T_TRACE),
    "C20": CLAIMED_C20,
}

NOT_YET = {}

"""Machinery shared by every check: build the harness from /repo's working tree, run drivers,
run TLC under a timeout, parse its output, match known findings, write evidence and replays."""
import hashlib
import json
import os
import re
import shutil
import subprocess
import sys
import time

VERIF = os.path.abspath(os.path.join(os.path.dirname(__file__), "..", ".."))
SPEC = os.path.join(VERIF, "spec")
HARNESS = os.path.join(VERIF, "harness")
WORK = os.path.join(VERIF, "work")
EVID = os.path.join(VERIF, "evidence")
REPLAYS = os.path.join(VERIF, "replays")
JAR = "/opt/veriftools/tla/tla2tools.jar:/opt/veriftools/tla/CommunityModules-deps.jar"
MAXCHAR = 0x2FFFF


class ToolError(Exception):
    pass


def log(*a):
    print(*a, file=sys.stderr, flush=True)


# ----------------------------------------------------------------------------- harness

_built = {}


def _harness_dir():
    """/verif/harness, or (VERIF_REPO set: background exploration against a snapshot of the repository) a private
    copy of it whose path dependency points at that snapshot.  Registered checks never set VERIF_REPO."""
    repo = os.environ.get("VERIF_REPO")
    if not repo or os.path.abspath(repo) == "/repo":
        return HARNESS
    d = os.path.join(WORK, "harness-" + hashlib.md5(os.path.abspath(repo).encode()).hexdigest()[:8])
    if not os.path.exists(os.path.join(d, "Cargo.toml")):
        os.makedirs(d, exist_ok=True)
        for name in ("src", ".cargo", "Cargo.lock"):
            src = os.path.join(HARNESS, name)
            dst = os.path.join(d, name)
            if os.path.isdir(src):
                shutil.copytree(src, dst, dirs_exist_ok=True)
            else:
                shutil.copy(src, dst)
        with open(os.path.join(HARNESS, "Cargo.toml")) as f:
            toml = f.read().replace('path = "/repo"', 'path = "%s"' % os.path.abspath(repo))
        with open(os.path.join(d, "Cargo.toml"), "w") as f:
            f.write(toml)
    return d


def build_harness(profile="dev"):
    """cargo build of the harness against /repo's current working tree (path dependency)."""
    if profile in _built:
        return _built[profile]
    global HARNESS
    HARNESS = _harness_dir()
    cmd = ["cargo", "build", "--offline", "--quiet"]
    if profile == "release":
        cmd.append("--release")
    env = dict(os.environ, CARGO_NET_OFFLINE="true")
    t0 = time.time()
    p = subprocess.run(cmd, cwd=HARNESS, env=env, stdout=subprocess.PIPE, stderr=subprocess.STDOUT, text=True)
    if p.returncode != 0:
        raise ToolError("harness build failed (%s):\n%s" % (profile, p.stdout[-4000:]))
    exe = os.path.join(HARNESS, "target", "release" if profile == "release" else "debug", "vh")
    log("[build] %s profile in %.1fs" % (profile, time.time() - t0))
    _built[profile] = exe
    return exe


def drive(family, outdir, tier, seed, extra=(), profile="dev", timeout=900, verb="drive"):
    exe = build_harness(profile)
    os.makedirs(outdir, exist_ok=True)
    cmd = [exe, verb, family, "--out", outdir, "--tier", tier, "--seed", str(seed)] + list(extra)
    t0 = time.time()
    try:
        p = subprocess.run(cmd, stdout=subprocess.PIPE, stderr=subprocess.PIPE, text=True, timeout=timeout)
    except subprocess.TimeoutExpired:
        raise ToolError("driver %s timed out after %ds" % (family, timeout))
    if p.returncode != 0:
        raise ToolError("driver %s failed rc=%d\n%s\n%s" % (family, p.returncode, p.stdout[-2000:], p.stderr[-2000:]))
    info = {}
    for line in p.stdout.splitlines():
        line = line.strip()
        if line.startswith("{"):
            try:
                info.update(json.loads(line))
            except ValueError:
                pass
    log("[drive] %s (%s) %.1fs %s" % (family, profile, time.time() - t0, json.dumps(info)[:200]))
    return info


# ----------------------------------------------------------------------------- TLC

VIOL_RE = re.compile(r'<<\s*"VIOL"\s*,\s*(\d+)\s*,\s*\{(.*?)\}\s*>>', re.S)
TUPLE_RE = re.compile(r'<<\s*"(DISAGREE|INFO|EMIT)"\s*,(.*?)>>\s*$', re.S | re.M)
GEN_RE = re.compile(r"(\d+) states generated, (\d+) distinct states found")


class TlcResult:
    def __init__(self):
        self.out = ""
        self.viols = []  # (record index (1-based), [obligation names])
        self.generated = 0
        self.distinct = 0
        self.ok = False  # model checking completed with no TLC error
        self.error = ""
        self.wall = 0.0
        self.cmd = ""


def run_tlc(module, cfg, env=None, workers=8, timeout=600, heap="6g", metadir=None, simulate=None, extra=()):
    if metadir is None:
        metadir = os.path.join(WORK, "tlc-%d-%d" % (os.getpid(), int(time.time() * 1000) % 100000000))
    os.makedirs(metadir, exist_ok=True)
    cmd = ["java", "-XX:+UseParallelGC", "-XX:ParallelGCThreads=4", "-Xss256m", "-Xmn256m", "-Xmx" + heap, "-cp", JAR,
           "tlc2.TLC", "-workers", str(workers), "-fpmem", "0.05", "-metadir", metadir, "-cleanup",
           "-noGenerateSpecTE", "-config", cfg]
    if simulate:
        cmd += ["-simulate", simulate]
    cmd += list(extra) + [module + ".tla"]
    e = dict(os.environ)
    e.pop("JAVA_TOOL_OPTIONS", None)
    if env:
        e.update(env)
    r = TlcResult()
    r.cmd = " ".join(cmd)
    t0 = time.time()
    try:
        p = subprocess.run(["timeout", "-k", "10", str(timeout)] + cmd, cwd=SPEC, env=e, stdout=subprocess.PIPE,
                           stderr=subprocess.STDOUT, text=True)
    finally:
        shutil.rmtree(metadir, ignore_errors=True)
    r.wall = time.time() - t0
    r.out = p.stdout
    if p.returncode in (124, 137):
        r.error = "timeout after %ds" % timeout
        return r
    for m in VIOL_RE.finditer(r.out):
        names = re.findall(r'"([^"]+)"', m.group(2))
        r.viols.append((int(m.group(1)), names))
    g = None
    for g in GEN_RE.finditer(r.out):
        pass
    if g:
        r.generated, r.distinct = int(g.group(1)), int(g.group(2))
    if "Model checking completed. No error has been found." in r.out or (simulate and p.returncode == 0):
        r.ok = True
    else:
        # keep the interesting part of TLC's complaint
        idx = r.out.find("Error:")
        r.error = r.out[idx:idx + 3000] if idx >= 0 else r.out[-3000:]
    return r


# ----------------------------------------------------------------------------- records

def read_ndjson(path):
    recs = []
    with open(path) as f:
        for line in f:
            line = line.strip()
            if line:
                recs.append(json.loads(line))
    return recs


def write_ndjson(path, recs):
    with open(path, "w") as f:
        for r in recs:
            f.write(json.dumps(r, separators=(",", ":")) + "\n")


# ----------------------------------------------------------------------------- known findings

def load_known():
    p = os.path.join(VERIF, "known_findings.json")
    if not os.path.exists(p):
        return []
    with open(p) as f:
        return json.load(f).get("findings", [])


def match_known(known, prop, obligation, stage, rec):
    """Return the open finding that lists exactly this failure, or None.  Fixed entries suppress nothing."""
    for k in known:
        if k.get("status") != "open" or k.get("property") != prop:
            continue
        m = k.get("match", {})
        if "obligation" in m and m["obligation"] != obligation:
            continue
        if "stage" in m and m["stage"] != stage:
            continue
        fields = m.get("fields", {})
        if any(rec.get(a) != b for a, b in fields.items()):
            continue
        return k
    return None


# ----------------------------------------------------------------------------- a check run

class Run:
    """Accumulates what one invocation of a check did; writes evidence and prints verdict lines."""

    def __init__(self, prop, tier, seed):
        self.prop, self.tier, self.seed = prop, tier, seed
        self.t0 = time.time()
        self.states = 0
        self.transitions = 0
        self.events = 0  # records of real executions validated
        self.traces = 0  # trace files / scenarios validated
        self.distinct = set()
        self.nontrivial = 0
        self.samples = []
        self.violations = []  # dicts
        self.known_hits = {}
        self.tool_errors = []
        self.stages = []
        self.cmds = []
        self.u1 = []
        self.exhaustive = False
        self.rule = ""
        self.assumptions = []
        self.extra = {}
        self.workdir = os.path.join(WORK, "%s-%d" % (prop, os.getpid()))
        os.makedirs(self.workdir, exist_ok=True)
        self.known = load_known()
        self.internal_notes = {}
        self.selftest = None      # dict stage -> mutator(record, rng) -> bool (True if it corrupted the record)
        self.selftest_results = []

    # --- U1: a design-level model, no implementation in the loop
    def model(self, module, cfg, workers=8, timeout=600, heap="6g", env=None, note=""):
        if self.selftest is not None:
            return None
        r = run_tlc(module, cfg, env=env, workers=workers, timeout=timeout, heap=heap,
                    metadir=os.path.join(self.workdir, "md-" + module))
        self.cmds.append(r.cmd)
        self.states += r.distinct
        self.transitions += r.generated
        self.u1.append({"model": module, "cfg": cfg, "distinct_states": r.distinct, "states_generated": r.generated,
                        "ok": r.ok, "wall_s": round(r.wall, 1), "note": note})
        log("[u1] %s/%s: %s, %d distinct states, %.1fs" % (module, cfg, "ok" if r.ok else "FAILED", r.distinct, r.wall))
        if not r.ok:
            self.tool_errors.append("design-level model %s (%s) failed: %s" % (module, cfg, r.error[:1500]))
        return r

    # --- U2: let TLC enumerate the behaviours of a generation model; one JSON line per behaviour
    def generate(self, module, cfg, outpath, timeout=600, heap="4g", simulate=None, extra=(), note="", env=None):
        r = run_tlc(module, cfg, env=env, workers=1, timeout=timeout, heap=heap, simulate=simulate, extra=extra,
                    metadir=os.path.join(self.workdir, "md-gen-" + module))
        self.cmds.append(r.cmd)
        n = 0
        with open(outpath, "w") as f:
            for line in r.out.splitlines():
                if line.startswith('"{'):
                    try:
                        f.write(json.loads(line) + "\n")
                        n += 1
                    except ValueError:
                        pass
        self.states += r.distinct
        self.transitions += r.generated
        self.u1.append({"model": module, "cfg": cfg, "distinct_states": r.distinct, "states_generated": r.generated,
                        "ok": r.ok, "wall_s": round(r.wall, 1), "behaviours_emitted": n,
                        "note": note or "generation model: behaviours replayed on the real crate"})
        log("[gen] %s/%s: %s, %d behaviours, %d distinct states, %.1fs" %
            (module, cfg, "ok" if r.ok else "FAILED", n, r.distinct, r.wall))
        if not r.ok or n == 0:
            self.tool_errors.append("generation model %s (%s) failed or emitted nothing: %s" % (module, cfg, r.error[:1500]))
        self.extra.setdefault("behaviours_generated_by_tlc", 0)
        self.extra["behaviours_generated_by_tlc"] += n
        return n

    # --- U3: validate a trace recorded from the real crate
    def _validate_sliced(self, stage, trace_path, nrecs, nshards, module, cfg, env, workers, timeout, heap, drop_slow):
        per = (nrecs + nshards - 1) // nshards
        r = TlcResult()
        r.ok = True
        unjudged = 0
        with open(trace_path) as f:
            lines = [ln for ln in f if ln.strip()]
        for k in range(nshards):
            chunk = lines[k * per:(k + 1) * per]
            if not chunk:
                continue
            spath = "%s.shard%d" % (trace_path, k)
            with open(spath, "w") as f:
                f.writelines(chunk)
            e = {"VH_TRACE": spath}
            if env:
                e.update(env)
            rk = run_tlc(module, cfg, env=e, workers=workers, timeout=timeout, heap=heap,
                         metadir=os.path.join(self.workdir, "md-%s-%d" % (stage, k)))
            os.remove(spath)
            r.cmd = rk.cmd
            r.wall += rk.wall
            if not rk.ok and drop_slow and rk.error.startswith("timeout"):
                unjudged += len(chunk)
                log("[tlc] %s: records %d..%d left unjudged (slice did not finish in %ds)" %
                    (stage, k * per + 1, k * per + len(chunk), timeout))
                continue
            r.distinct += rk.distinct
            r.generated += rk.generated
            r.viols += [(idx + k * per, names) for idx, names in rk.viols]
            if not rk.ok:
                r.ok = False
                r.error = rk.error
                break
        self.cmds.append("VH_TRACE=<%d slices of %s> %s" % (nshards, trace_path, r.cmd))
        if unjudged > max(per, nrecs // 20):
            r.ok = False
            r.error = "timeout: %d of %d records could not be judged even in slices" % (unjudged, nrecs)
        return r, unjudged

    def validate(self, stage, trace_path, module, cfg, prefixes, workers=8, timeout=900, heap="6g", env=None,
                 nontrivial=None, need=None, expect_distinct=None, note_prefixes=()):
        """prefixes: obligation-name prefixes that belong to this property (e.g. ["C20:"]).
        note_prefixes: obligations of an INTERNAL specification (private data structures, the refinement loop):
        a failure means the code no longer follows that internal specification, which the property does not forbid;
        it is reported as a NOTE and recorded in the evidence, never as a VIOLATION."""
        if self.tier != "thorough":
            # quick tier: a stage that has not finished after 7 minutes is re-judged in slices (see below)
            timeout = min(timeout, 420)
        recs = read_ndjson(trace_path)
        if not recs:
            self.tool_errors.append("stage %s: empty trace %s" % (stage, trace_path))
            return None
        if self.selftest is not None:
            return self._selftest_stage(stage, recs, trace_path, module, cfg, prefixes, workers, timeout, heap, env)
        # large traces are validated in shards (bounded TLC heap); indices are mapped back to the whole trace
        size = os.path.getsize(trace_path)
        nshards = max(1, min(64, int(size / 12e6) + 1))
        unjudged = 0
        if nshards == 1:
            e = {"VH_TRACE": trace_path}
            if env:
                e.update(env)
            r = run_tlc(module, cfg, env=e, workers=workers, timeout=timeout, heap=heap,
                        metadir=os.path.join(self.workdir, "md-" + stage))
            self.cmds.append("VH_TRACE=%s %s" % (trace_path, r.cmd))
            if not r.ok and r.error.startswith("timeout"):
                # a few records can be pathologically expensive for the specification's executable definitions
                # (a seed-dependent random term): judge the trace in 40 slices with a short limit each and leave
                # the slices that still do not finish UNJUDGED (counted, reported; a tool error if they are many)
                log("[tlc] %s: timeout after %ds, retrying in slices" % (stage, timeout))
                r, unjudged = self._validate_sliced(stage, trace_path, len(recs), 40, module, cfg, env, workers,
                                                    max(90, timeout // 12), heap, drop_slow=True)
        else:
            r, _ = self._validate_sliced(stage, trace_path, len(recs), nshards, module, cfg, env, workers, timeout, heap,
                                         drop_slow=False)
            if not r.ok and r.error.startswith("timeout"):
                log("[tlc] %s: timeout after %ds, retrying in finer slices" % (stage, timeout))
                r, unjudged = self._validate_sliced(stage, trace_path, len(recs), max(40, nshards * 10), module, cfg, env,
                                                    workers, max(90, timeout // 12), heap, drop_slow=True)
        self.states += r.distinct
        self.transitions += r.generated
        st = {"stage": stage, "module": module, "records": len(recs), "distinct_states": r.distinct,
              "states_generated": r.generated, "wall_s": round(r.wall, 1), "ok": r.ok}
        if unjudged:
            st["unjudged_records"] = unjudged
        self.stages.append(st)
        log("[tlc] %s: %s %d records, %d distinct states, %d VIOL, %.1fs" %
            (stage, "ok" if r.ok else "FAILED", len(recs), r.distinct, len(r.viols), r.wall))
        if not r.ok:
            self.tool_errors.append("stage %s: TLC did not complete: %s" % (stage, r.error[:2000]))
            return r
        self.events += len(recs) - unjudged
        self.traces += 1
        for rec in recs:
            key = hashlib.md5(json.dumps(rec, sort_keys=True).encode()).digest()
            if key not in self.distinct:
                self.distinct.add(key)
                if nontrivial is None or nontrivial(rec):
                    self.nontrivial += 1
        if len(self.samples) < 6:
            pool = [r_ for r_ in recs if nontrivial is None or nontrivial(r_)] or recs
            step = max(1, len(pool) // 3)
            for rec in pool[step // 2::step][:3]:
                self.samples.append({"stage": stage, "record": _clip(rec)})
        if need:
            counts = {}
            for rec in recs:
                for key, fn in need.items():
                    if fn(rec):
                        counts[key] = counts.get(key, 0) + 1
            missing = [k for k in need if counts.get(k, 0) == 0]
            st["branch_counts"] = counts
            if missing:
                self.tool_errors.append("stage %s: vacuous run, no record exercised: %s" % (stage, ", ".join(missing)))
        for idx, names in r.viols:
            rec = recs[idx - 1] if 0 < idx <= len(recs) else {}
            for name in names:
                if any(name.startswith(p) for p in prefixes):
                    self._violation(stage, idx, name, rec, trace_path, module, cfg)
                elif any(name.startswith(p) for p in note_prefixes):
                    self.internal_notes.setdefault((stage, name), []).append(idx)
        return r

    def _selftest_stage(self, stage, recs, trace_path, module, cfg, prefixes, workers, timeout, heap, env):
        prefixes = list(prefixes) + ["HOP:", "CMP:"]
        """Binding proof: corrupt recorded fields and require the validator to reject exactly those records."""
        import random
        mut = self.selftest.get(stage)
        if mut is None:
            return None
        rnd = random.Random(self.seed * 7919 + len(recs))
        order = list(range(len(recs)))
        rnd.shuffle(order)
        corrupted = []
        recs = [json.loads(json.dumps(r)) for r in recs]
        for i in order:
            if len(corrupted) >= 40:
                break
            try:
                if mut(recs[i], rnd):
                    corrupted.append(i + 1)
            except (KeyError, IndexError, TypeError):
                pass
        path = trace_path + ".corrupted"
        write_ndjson(path, recs)
        e = {"VH_TRACE": path}
        if env:
            e.update(env)
        r = run_tlc(module, cfg, env=e, workers=workers, timeout=timeout, heap=heap,
                    metadir=os.path.join(self.workdir, "md-st-" + stage))
        flagged = set(idx for idx, names in r.viols if any(n.startswith(p) for n in names for p in prefixes))
        hit = [i for i in corrupted if i in flagged]
        spurious = sorted(flagged - set(corrupted))
        res = {"stage": stage, "corrupted": len(corrupted), "rejected": len(hit), "spurious": len(spurious),
               "tlc_ok": r.ok}
        self.selftest_results.append(res)
        log("[selftest] %s %s: %d records corrupted, %d rejected by the validator, %d other records flagged" %
            (self.prop, stage, len(corrupted), len(hit), len(spurious)))
        os.remove(path)
        return r

    def _violation(self, stage, idx, name, rec, trace_path, module, cfg):
        k = match_known(self.known, self.prop, name, stage, rec)
        if k is not None:
            self.known_hits.setdefault(k["id"], {"finding": k, "count": 0})["count"] += 1
            return
        v = {"stage": stage, "index": idx, "obligation": name, "record": rec, "module": module, "cfg": cfg}
        self.violations.append(v)

    def add_violation(self, stage, name, rec, idx=0, module="", cfg=""):
        self._violation(stage, idx, name, rec, "", module, cfg)

    # --- finishing
    def finish(self, level="model_checking"):
        os.makedirs(EVID, exist_ok=True)
        os.makedirs(REPLAYS, exist_ok=True)
        wall = time.time() - self.t0
        # group violations: one VIOLATION line per (stage, obligation), first failing record is the replay
        lines = []
        seen = {}
        for v in self.violations:
            key = (v["stage"], v["obligation"])
            seen.setdefault(key, []).append(v)
        for (stage, ob), vs in seen.items():
            first = vs[0]
            name = "%s-%s-%s-%d.json" % (self.prop, stage, re.sub(r"[^A-Za-z0-9_]", "_", ob), first["index"])
            path = os.path.join(REPLAYS, name)
            with open(path, "w") as f:
                json.dump({"property": self.prop, "tier": self.tier, "seed": self.seed, "stage": stage,
                           "obligation": ob, "index": first["index"], "module": first["module"],
                           "cfg": first["cfg"], "record": first["record"], "occurrences": len(vs),
                           "other_indices": [x["index"] for x in vs[1:20]]}, f, indent=1)
            lines.append("VIOLATION property=%s replay=%s" % (self.prop, path))
        for (stage, name), idxs in self.internal_notes.items():
            print("NOTE: internal specification not followed (not a violation of %s): %s at stage %s, %d record(s), first %d"
                  % (self.prop, name, stage, len(idxs), idxs[0]))
        for kid, h in self.known_hits.items():
            print("KNOWN-FINDING: property=%s %s (%d occurrences this run)" %
                  (self.prop, h["finding"]["what"], h["count"]))
        for line in lines:
            print(line)
        cov = {
            "states": self.states,
            "transitions": self.transitions,
            "traces_validated_against_impl": self.traces,
            "samples": self.samples[:6] if self.samples else [{"note": "no implementation record (model only)"}],
            "evaluations": self.events,
            "distinct_nontrivial": self.nontrivial,
            "rule": self.rule,
            "exhaustive": self.exhaustive,
            "checker_cmd": self.cmds[-1] if self.cmds else "",
            "design_level_models": self.u1,
            "validation_stages": self.stages,
            "known_findings_hit": [{"id": k, "count": h["count"]} for k, h in self.known_hits.items()],
            "tool_errors": self.tool_errors,
            "internal_spec_divergences": [{"stage": s_, "obligation": n_, "records": len(i_)}
                                          for (s_, n_), i_ in self.internal_notes.items()],
        }
        cov.update(self.extra)
        ev = {"property_id": self.prop, "tier": self.tier, "seed": self.seed, "level": level, "coverage": cov,
              "assumptions": self.assumptions, "wall_s": round(wall, 1), "violations": len(lines)}
        with open(os.path.join(EVID, self.prop + ".json"), "w") as f:
            json.dump(ev, f, indent=1)
        if not os.environ.get("VERIF_KEEP"):
            shutil.rmtree(self.workdir, ignore_errors=True)
        if lines:
            log("[%s] %d violation group(s) in %.1fs" % (self.prop, len(lines), wall))
            return 1
        if self.tool_errors:
            for t in self.tool_errors:
                log("TOOL-ERROR: " + t)
            return 2
        log("[%s] held on everything explored: %d impl records, %d states, %.1fs" %
            (self.prop, self.events, self.states, wall))
        return 0


def _clip(rec, limit=600):
    s = json.dumps(rec)
    if len(s) <= limit:
        return rec
    return {"clipped": s[:limit] + "..."}


# ----------------------------------------------------------------------------- command line

def main(argv):
    from vlib import props
    if not argv or argv[0] in ("-h", "--help"):
        print(__doc__)
        return 2
    tier = os.environ.get("VERIF_TIER", "quick")
    seed = int(os.environ.get("VERIF_SEED", "1") or "1")
    replay = None
    ids = []
    mode = "check"
    i = 0
    while i < len(argv):
        a = argv[i]
        if a == "--tier":
            tier = argv[i + 1]
            i += 2
        elif a == "--seed":
            seed = int(argv[i + 1])
            i += 2
        elif a == "--replay":
            replay = argv[i + 1]
            i += 2
        elif a == "--keep":
            os.environ["VERIF_KEEP"] = "1"
            i += 1
        elif a in ("--selftest", "--u1", "--sany", "--proofs"):
            mode = a[2:]
            i += 1
        else:
            ids.append(a)
            i += 1
    if tier not in ("quick", "thorough"):
        tier = "quick"
    os.makedirs(WORK, exist_ok=True)
    try:
        if mode == "sany":
            return props.sany()
        if mode == "u1":
            return props.all_u1(ids)
        if mode == "proofs":
            return props.proofs()
        if mode == "selftest":
            return props.selftest(ids, seed)
        if len(ids) != 1 or ids[0] not in props.CHECKS:
            log("unknown property; known: " + " ".join(sorted(props.CHECKS)))
            return 2
        if replay:
            return props.replay(ids[0], replay)
        run = Run(ids[0], tier, seed)
        try:
            props.CHECKS[ids[0]](run)
        except ToolError as e:
            run.tool_errors.append(str(e))
        return run.finish()
    except ToolError as e:
        log("TOOL-ERROR: " + str(e))
        return 2

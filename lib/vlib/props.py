"""Per-property check definitions (DESIGN section 5).  Each function receives a core.Run."""
import copy
import glob
import json
import os
import subprocess

from vlib import core
from vlib.core import SPEC, ToolError, log

CHECKS = {}


def check(pid):
    def deco(fn):
        CHECKS[pid] = fn
        return fn
    return deco


def _drive(run, family, extra=(), profile="dev", sub=None, timeout=900):
    out = os.path.join(run.workdir, sub or family)
    info = core.drive(family, out, run.tier, run.seed, extra=extra, profile=profile, timeout=timeout)
    return out, info


def workers(run):
    return 16 if run.tier == "thorough" else 12


# ------------------------------------------------------------------------------------ C20

def _c20_nontrivial(r):
    op = r.get("op")
    if op in ("inter", "union", "covers", "cmp"):
        return r["c"] != r["d"]
    if op == "interlist":
        return len(r["cs"]) >= 2
    return op in ("point", "unary")


@check("C20")
def c20(run):
    run.rule = ("events = CharSet calls on every pair (triple for inter_list) of intervals of a 7-block embedding of "
                "0..6 into 0..0x2FFFF under several seeded block layouts, plus seeded random real intervals with "
                "+-1 neighbours; non-trivial = distinct record whose operands differ (pairs), >= 2 operands (lists), "
                "or any point/unary query")
    run.assumptions = ["region lemma (checked by MC_Chars for every candidate result on 0..4): quantifying over "
                       "region representatives equals quantifying over all 196608 characters",
                       "end points of result sets are read through the Debug form of CharSet"]
    run.model("MC_Chars", "MC_Chars.cfg", workers=workers(run),
              note="closed forms satisfy the set-theoretic obligations; region lemma for every candidate result")
    out, _ = _drive(run, "charsets")
    ops = ["ctor", "unary", "point", "inter", "union", "covers", "cmp", "interlist"]
    need = {o: (lambda r, o=o: r.get("op") == o) for o in ops}
    need["union_some_adjacent"] = lambda r: r.get("op") == "union" and r["r"] and (r["c"][1] + 1 == r["d"][0])
    need["union_none"] = lambda r: r.get("op") == "union" and not r["r"]
    need["inter_none"] = lambda r: r.get("op") == "inter" and not r["r"]
    need["cmp_none"] = lambda r: r.get("op") == "cmp" and r["r"] == "none"
    need["touches_0_and_max"] = lambda r: r.get("op") == "union" and r["c"][0] == 0 and r["d"][1] == core.MAXCHAR
    run.validate("charsets", os.path.join(out, "charsets.ndjson"), "Trace_Chars", "Trace_Chars.cfg", ["C20:"],
                 workers=workers(run), nontrivial=_c20_nontrivial, need=need)
    run.exhaustive = False


# ------------------------------------------------------------------------------------ regex family

REGEX_ASSUME = [
    "MC_Regex (run in this check): the residual automaton used as oracle agrees with the denotational semantics on "
    "every kernel term of depth <= 2 over a 2-letter alphabet and every word of length <= 4",
    "region argument: one character per region of the end points of the AST and of every class/range the crate "
    "reports is explored (Trace_Product checks that the AST's regions are covered); thorough tier adds full "
    "196608-character scans for a sample of automata",
    "cases whose heuristic residual-automaton cost exceeds the limit (a few % of the random family) are checked on "
    "bounded words only, not exhaustively",
]


def _u1_regex(run):
    full = run.tier == "thorough"
    run.model("MC_Regex", "MC_Regex_full.cfg" if full else "MC_Regex.cfg", workers=workers(run), timeout=1500,
              note="residual automaton = denotational Matches on all kernel terms depth<=2 x words<=4; derived "
                   "constructors vs SMT-LIB literal definitions; exact emptiness vs bounded search")


def _explored(r):
    return r.get("op") in ("dgraph", "automaton")


@check("C01")
def c01(run):
    run.rule = ("cases = construction programs: all of depth <= 1 over 18 atoms, a stratified sample of depth 2 "
                "over 6 atoms, a second alphabet layout, the semantically-empty family, seeded random programs "
                "of depth 2..5 over real code points; each built on fresh and dirty managers; exact product check "
                "of the derivative graph with the residual automaton of the AST (all strings) + str_in_re on all "
                "words <= 3 over 3 letters via ReManager and via the re_* wrappers; non-trivial = distinct record "
                "whose AST has depth >= 1")
    run.assumptions = list(REGEX_ASSUME)
    _u1_regex(run)
    out, info = _drive(run, "c01")
    need = {"star": lambda r: r.get("rootop") == "star", "mk_loop": lambda r: r.get("rootop") == "mk_loop",
            "complement": lambda r: r.get("rootop") == "complement", "inter": lambda r: r.get("rootop") == "inter",
            "explored": _explored, "random": lambda r: r.get("fam") == "random"}
    nt = lambda r: r.get("ast", {}).get("k") not in ("none", "eps", "all", "allchar", "rng", "chr", "str")
    run.validate("c01_products", os.path.join(out, "c01_products.ndjson"), "Trace_Product", "Trace_Product.cfg",
                 ["C01:", "build/"], workers=workers(run), nontrivial=nt, need=need, timeout=1500)
    run.validate("c01_mem", os.path.join(out, "c01_mem.ndjson"), "Trace_Regex", "Trace_Regex.cfg",
                 ["C01:", "wrappers"], workers=workers(run), nontrivial=nt, timeout=1500,
                 need={"via_smt": lambda r: r.get("via") == "smt", "via_manager": lambda r: r.get("via") == "manager"})
    run.extra["driver"] = info


@check("C02")
def c02(run):
    run.rule = ("cases = the C01 program families, each compiled with compile or try_compile(bound = number of "
                "derivatives); the automaton is dumped by calling next/is_final on region representatives and "
                "explored in product with the residual automaton of the AST; structure (sorted disjoint ranges, "
                "default iff needed), counters and accepts/str_next on sample words are checked per case; "
                "non-trivial = distinct record whose AST has depth >= 1")
    run.assumptions = list(REGEX_ASSUME)
    _u1_regex(run)
    out, info = _drive(run, "c02")
    nt = lambda r: r.get("ast", {}).get("k") not in ("none", "eps", "all", "allchar", "rng", "chr", "str")
    need = {"compile": lambda r: r.get("via") == "compile", "try_compile": lambda r: r.get("via") == "try_compile",
            "explored": _explored, "fullscan": lambda r: r.get("fullscan") is True}
    run.validate("c02_products", os.path.join(out, "c02_products.ndjson"), "Trace_Product", "Trace_Product.cfg",
                 ["C02:", "compile"], workers=workers(run), nontrivial=nt, need=need, timeout=1500)
    run.extra["driver"] = info


# ------------------------------------------------------------------------------------ housekeeping

def sany():
    bad = 0
    for f in sorted(glob.glob(os.path.join(SPEC, "*.tla"))):
        p = subprocess.run(["java", "-cp", core.JAR, "tla2sany.SANY", os.path.basename(f)], cwd=SPEC,
                           stdout=subprocess.PIPE, stderr=subprocess.STDOUT, text=True)
        ok = p.returncode == 0 and "error" not in p.stdout.lower().replace("errors: 0", "")
        log("[sany] %s %s" % (os.path.basename(f), "ok" if ok else "FAILED"))
        if not ok:
            log(p.stdout[-1500:])
            bad += 1
    return 2 if bad else 0


def all_u1(ids):
    return 0


def selftest(ids, seed):
    return 0


def replay(pid, path):
    """Re-execute the check with the recorded tier/seed and report whether the recorded obligation still fails
    on the same input (drivers are deterministic in tier and seed)."""
    with open(path) as f:
        rp = json.load(f)
    run = core.Run(pid, rp.get("tier", "quick"), rp.get("seed", 1))
    try:
        CHECKS[pid](run)
    except ToolError as e:
        run.tool_errors.append(str(e))
    want = (rp.get("stage"), rp.get("obligation"), json.dumps(rp.get("record"), sort_keys=True))
    hit = [v for v in run.violations
           if (v["stage"], v["obligation"], json.dumps(v["record"], sort_keys=True)) == want]
    rc = run.finish()
    if hit:
        print("REPLAY: reproduced %s at %s" % (rp.get("obligation"), rp.get("stage")))
        return 1
    print("REPLAY: not reproduced (exit of full check: %d)" % rc)
    return 0 if rc != 2 else 2

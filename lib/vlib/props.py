"""Per-property check definitions (DESIGN section 5).  Each function receives a core.Run."""
import copy
import glob
import json
import os
import subprocess

from vlib import core
from vlib.core import SPEC, ToolError, log

CHECKS = {}


def check(pid):
    def deco(fn):
        CHECKS[pid] = fn
        return fn
    return deco


def _drive(run, family, extra=(), profile="dev", sub=None, timeout=900, verb="drive"):
    out = os.path.join(run.workdir, sub or family)
    info = core.drive(family, out, run.tier, run.seed, extra=extra, profile=profile, timeout=timeout, verb=verb)
    return out, info


def workers(run):
    return 16 if run.tier == "thorough" else 12


# ------------------------------------------------------------------------------------ C20

def _c20_nontrivial(r):
    op = r.get("op")
    if op in ("inter", "union", "covers", "cmp"):
        return r["c"] != r["d"]
    if op == "interlist":
        return len(r["cs"]) >= 2
    return op in ("point", "unary")


@check("C20")
def c20(run):
    run.rule = ("events = CharSet calls on every pair (triple for inter_list) of intervals of a 7-block embedding of "
                "0..6 into 0..0x2FFFF under several seeded block layouts, plus seeded random real intervals with "
                "+-1 neighbours, plus every interval between two of 22 landmark code points (ends of narrower character "
                "types, surrogate block, U+FFFD, planes); non-trivial = distinct record whose operands differ (pairs), >= 2 operands (lists), "
                "or any point/unary query")
    run.assumptions = ["region lemma (checked by MC_Chars for every candidate result on 0..4): quantifying over "
                       "region representatives equals quantifying over all 196608 characters",
                       "end points of result sets are read through the Debug form of CharSet"]
    run.model("MC_Chars", "MC_Chars.cfg", workers=workers(run),
              note="closed forms satisfy the set-theoretic obligations; region lemma for every candidate result")
    out, _ = _drive(run, "charsets")
    ops = ["ctor", "unary", "point", "inter", "union", "covers", "cmp", "interlist"]
    need = {o: (lambda r, o=o: r.get("op") == o) for o in ops}
    need["union_some_adjacent"] = lambda r: r.get("op") == "union" and r["r"] and (r["c"][1] + 1 == r["d"][0])
    need["union_none"] = lambda r: r.get("op") == "union" and not r["r"]
    need["inter_none"] = lambda r: r.get("op") == "inter" and not r["r"]
    need["cmp_none"] = lambda r: r.get("op") == "cmp" and r["r"] == "none"
    need["touches_0_and_max"] = lambda r: r.get("op") == "union" and r["c"][0] == 0 and r["d"][1] == core.MAXCHAR
    run.validate("charsets", os.path.join(out, "charsets.ndjson"), "Trace_Chars", "Trace_Chars.cfg", ["C20:"],
                 workers=workers(run), nontrivial=_c20_nontrivial, need=need)
    run.exhaustive = False


# ------------------------------------------------------------------------------------ C11 / C12

PART_ASSUME = ["region lemma for partitions: classes are unions of regions delimited by interval end points, so one "
               "character per region decides the set-theoretic obligations (full-alphabet scans of class_of_char on a "
               "sample remove the assumption for that query)",
               "small scope: every partition of 0..6 (all subsets of pairwise disjoint intervals) is built by every "
               "route under several block embeddings into 0..0x2FFFF"]


def _partition_traces(run, pair_stride):
    scen = os.path.join(run.workdir, "part_scen.ndjson")
    run.generate("MC_PartGen", "MC_PartGen.cfg", scen,
                 note="every behaviour of the PartitionObj state machine over 0..6: New/FromSet + enabled Push steps, "
                      "and TryFromList on every list of <= 3 intervals in every order")
    out, info = _drive(run, "partitions", verb="replay", sub="replay",
                       extra=["--scen", scen, "--pair-stride", str(pair_stride)])
    out2, info2 = _drive(run, "partitions", sub="random")
    run.extra["driver"] = [info, info2]
    return out, out2


@check("C11")
def c11(run):
    run.rule = ("behaviours = TLC-generated: every partition of 0..6 built by push and by from_set+push (projection "
                "compared after every action) and every try_from_list call on <= 3 intervals in every order, "
                "replayed under block embeddings with class_of_char on first/last/interior of every block and "
                "interval_cover/class_of_set/good_char_set on every block-aligned query set plus sets starting or "
                "ending inside a block; plus seeded random partitions of <= 12 real intervals with queries on all "
                "end point +-1 pairs and full-alphabet scans; long partitions (up to 300 intervals), long scrambled lists with "
                "one overlap, iterator kinds, queries between pushes, partitions cut at every pair / window of 22 landmark "
                "code points; non-trivial = distinct record with >= 2 intervals")
    run.assumptions = list(PART_ASSUME)
    run.model("MC_CoverSearch", "MC_CoverSearch_full.cfg" if run.tier == "thorough" else "MC_CoverSearch.cfg",
              workers=workers(run), timeout=1500,
              note="PlusCal transcription of class_of_char and interval_cover (the two binary searches) = set-theoretic "
                   "ClassOf / Cover on every partition of 0..5 (0..6) x every character x every query set; region lemma for Cover")
    out, out2 = _partition_traces(run, 1000000)
    nt = lambda r: len(r.get("ivs", [])) >= 2
    def cov(kind):
        return lambda r: any(q["cover"] == kind for q in r.get("sets", []))
    need = {"route_push": lambda r: r.get("route") == "push", "route_from_set": lambda r: r.get("route") == "from_set",
            "route_list_ok": lambda r: r.get("route") == "list" and r.get("res") == "ok",
            "route_list_err": lambda r: r.get("route") == "list" and r.get("res", "").startswith("err"),
            "cover_in": cov("in"), "cover_disjoint": cov("disjoint"), "cover_overlaps": cov("overlaps"),
            "empty_complement": lambda r: any(s["empty_comp"] for s in r.get("steps", [])),
            "adjacent_intervals": lambda r: any(a[1] + 1 == b[0] for a, b in zip(r.get("ivs", []), r.get("ivs", [])[1:]))}
    w = workers(run)
    run.validate("part_objects", os.path.join(out, "part_objects.ndjson"), "Trace_Partitions", "Trace_Partitions.cfg",
                 ["C11:", "partition object"], workers=w, nontrivial=nt, need=need, timeout=1500)
    run.validate("part_random", os.path.join(out2, "part_random.ndjson"), "Trace_Partitions", "Trace_Partitions.cfg",
                 ["C11:", "partition object"], workers=w, nontrivial=nt, timeout=1500)
    run.validate("part_scans", os.path.join(out2, "part_scans.ndjson"), "Trace_Partitions", "Trace_Partitions.cfg",
                 ["C11:"], workers=w, nontrivial=nt, timeout=1500)
    run.exhaustive = True
    run.extra["exhaustive_scope"] = "all behaviours of PartitionObj over 0..6 with lists <= 3 (TLC-enumerated), block-embedded"


@check("C12")
def c12(run):
    run.rule = ("cases = merge_partitions on ordered pairs of the TLC-generated partitions of 0..6 (quick: every 40th "
                "pair; thorough: all 372100) under block embeddings, merge_partition_list on all permutations of "
                "triples from a reduced set, [] and the neutral element, lists of every length 0..20, 31..33, 64, 65 in which "
                "each partition has a boundary of its own, look-alike list neighbours, long-vs-short merges, plus seeded random "
                "real partitions; "
                "obligations (a)-(e) of DESIGN 5 C12 and the literal reading (f) with structural identification of "
                "the representation finding; non-trivial = distinct record whose operands are both non-empty")
    run.assumptions = list(PART_ASSUME)
    run.model("MC_MergeSweep", "MC_MergeSweep_full.cfg" if run.tier == "thorough" else "MC_MergeSweep.cfg",
              workers=workers(run), timeout=1500,
              note="PlusCal transcription of merge_partitions (two-finger sweep with carried triples, push with witness "
                   "update) satisfies obligations (a)-(e) on every ordered pair of partitions of 0..4 (0..5); the literal "
                   "reading fails only on separated pairs")
    run.model("MC_MergeList", "MC_MergeList_full.cfg" if run.tier == "thorough" else "MC_MergeList.cfg",
              workers=workers(run), timeout=2400,
              note="on every triple of partitions of 0..3 (0..4): obligations (a)-(d) are satisfied by the denotational "
                   "merge and by no other partition; the merge is associative, commutative, idempotent with the empty "
                   "partition as neutral element, and any grouping of a list gives the n-ary common refinement")
    out, out2 = _partition_traces(run, 1 if run.tier == "thorough" else 40)
    nt = lambda r: (r.get("op") == "merge" and r["p1"] and r["p2"]) or (r.get("op") == "mergelist" and len(r["ps"]) >= 2)
    need = {"merge": lambda r: r.get("op") == "merge", "mergelist": lambda r: r.get("op") == "mergelist",
            "empty_list": lambda r: r.get("op") == "mergelist" and len(r["ps"]) == 0,
            "result_empty_complement": lambda r: r.get("op") == "merge" and r["m"]["empty_comp"]}
    w = workers(run)
    run.validate("part_merges", os.path.join(out, "part_merges.ndjson"), "Trace_Partitions", "Trace_Partitions.cfg",
                 ["C12:", "merge_partition"], workers=w, nontrivial=nt, need=need, timeout=3000)
    run.validate("part_random_merges", os.path.join(out2, "part_random_merges.ndjson"), "Trace_Partitions",
                 "Trace_Partitions.cfg", ["C12:", "merge_partition"], workers=w, nontrivial=nt, timeout=1500)
    run.exhaustive = run.tier == "thorough"


# ------------------------------------------------------------------------------------ automata

AUT_ASSUME = ["automata are dumped by calling next/is_final on one character per region of the ranges of every state "
              "(first, last and middle character of every letter block for generated DFAs); language questions are "
              "then exact reachability questions on finite product graphs (Dfa.tla)",
              "state names are mapped to ids in first-mention order, the only way to relate the caller's names to "
              "the states of the automaton returned"]


def _sample(path, keep):
    """keep(k, record) -> bool: thin a TLC-generated scenario file in place (quick tier)."""
    recs = core.read_ndjson(path)
    out = [r for k, r in enumerate(recs) if keep(k, r)]
    core.write_ndjson(path, out)
    return len(recs), len(out)


def _components(run, kinds, names):
    """Growth: the private building blocks behind this property, driven by TLC-generated operation sequences."""
    scen = os.path.join(run.workdir, "components_scen.ndjson")
    run.generate("MC_Components", "MC_Components.cfg", scen, timeout=1200,
                 note="operation sequences (<= 4 ops over a universe of 3) for FastSet / BfsQueue / LabeledQueue, all "
                      "deterministic 3-node 2-label graphs for the BFS driver, small compact tables, pairs of partition "
                      "refinements; ASSUME: BFS through the LabeledQueue spec reaches exactly the reachable nodes")
    total, kept = _sample(scen, lambda k, r: r["kind"] in kinds)
    out, info = _drive(run, "components", verb="replay", sub="components", extra=["--scen", scen])
    # the successor table is what C14 speaks about; the other building blocks are internal contracts
    fatal = ["CMP:compact_table"] if "compact_table" in names else []
    run.validate("components", os.path.join(out, "components.ndjson"), "Trace_Components", "Trace_Components.cfg",
                 fatal + ["component "], note_prefixes=["CMP:" + n for n in names], workers=workers(run), timeout=1500,
                 nontrivial=lambda r: len(r.get("ops", r.get("steps", r.get("order", [])))) >= 2,
                 need={k: (lambda r, k=k: r.get("kind") == k) for k in kinds})
    run.extra["components"] = {"kinds": sorted(kinds), "behaviours": kept}


@check("C13")
def c13(run):
    run.rule = ("behaviours = TLC-generated call sequences of the Builder state machine over states {0,1,2} and the six "
                "labels of 0..2 (state 0: up to 2 (3 thorough) transitions in every order + default (possibly "
                "overridden); state 1: small completion; final flags; state 2 as target only), each ending with build, "
                "replayed under block embeddings; plus seeded random sequences over real code points with holes, "
                "overlaps and shuffled call order, builder reuse, repeated calls, tilings in every order, many labels / "
                "states, one label between every pair of 22 landmark code points; verdict classes MustReject / MustAccept / Either and, on Ok, initial "
                "state, finals, counters and next(state, x) = SpecDelta(state, x) for every region representative; "
                "non-trivial = distinct behaviour with >= 2 transitions")
    run.assumptions = list(AUT_ASSUME)
    scen = os.path.join(run.workdir, "builder_scen.ndjson")
    full = run.tier == "thorough"
    run.generate("MC_Builder", "MC_Builder_full.cfg" if full else "MC_Builder.cfg", scen, timeout=2400,
                 note="every call sequence of the bounded builder model; invariants: domains consistent, accepted specs "
                      "total, region lemma for the verdict")
    if not full:
        s = run.seed % 6
        total, kept = _sample(scen, lambda k, r: (r["verdict"] == "MustAccept") or (r["verdict"] == "Either" and k % 2 == s % 2)
                              or k % 6 == s)
        run.extra["quick_sample"] = "all MustAccept, half of the Either and every 6th MustReject behaviour: %d of %d" % (kept, total)
    out, info = _drive(run, "builder", verb="replay", sub="replay", extra=["--scen", scen], timeout=1800)
    out2, info2 = _drive(run, "builder", sub="random")
    nt = lambda r: sum(1 for c in r.get("calls", []) if c["op"] == "add") >= 2
    need = {"gen_MustReject": lambda r: r.get("gen_verdict") == "MustReject",
            "gen_MustAccept": lambda r: r.get("gen_verdict") == "MustAccept",
            "gen_Either": lambda r: r.get("gen_verdict") == "Either",
            "accepted": lambda r: r.get("res") == "ok", "rejected": lambda r: str(r.get("res", "")).startswith("err")}
    run.validate("builder", os.path.join(out, "builder.ndjson"), "Trace_Automata", "Trace_Automata.cfg",
                 ["C13:"], workers=workers(run), nontrivial=nt, need=need, timeout=3000, heap="10g")
    run.validate("builder_random", os.path.join(out2, "builder_random.ndjson"), "Trace_Automata", "Trace_Automata.cfg",
                 ["C13:"], workers=workers(run), nontrivial=nt, timeout=1500,
                 need={"accepted": lambda r: r.get("res") == "ok", "rejected": lambda r: str(r.get("res", "")).startswith("err")})
    run.exhaustive = full
    run.extra["driver"] = [info, info2]


def _dfa_traces(run, which):
    scen = os.path.join(run.workdir, "dfa_scen.ndjson")
    run.generate("MC_Dfa", "MC_Dfa.cfg", scen, timeout=1200,
                 note="every complete DFA with <= 3 states over 2 letters; invariant: Nerode/quotient definitions agree")
    if run.tier == "thorough":
        scen3 = os.path.join(run.workdir, "dfa_scen3.ndjson")
        run.generate("MC_Dfa", "MC_Dfa3.cfg", scen3, timeout=3000, heap="8g",
                     note="every complete DFA with <= 3 states over 3 letters (157 722)")
        with open(scen, "a") as f, open(scen3) as g:
            f.write(g.read())
    out, info = _drive(run, "dfa", verb="replay", sub="replay", extra=["--scen", scen, "--for", which], timeout=3000)
    out2, info2 = _drive(run, "automata", sub="random", extra=["--for", which])
    run.extra["driver"] = [info, info2]
    return out, out2


@check("C04")
def c04(run):
    run.rule = ("cases = every complete DFA with <= 3 states over 2 letters (TLC-generated, 5898; all-final, none-final "
                "and unreachable parts included), built through AutomatonBuilder in three styles under block "
                "embeddings, then minimize(); seeded random DFAs with <= 12 states / <= 4 letters; automata compiled "
                "from the C01 families; every second automaton build() returns for the C13 random call-sequence families; "
                "regular large, deep-chain and differently-cut automata; per case: language of result = language of input (product fixpoint), no two "
                "result states Nerode-equivalent, |result| = Myhill-Nerode index when all states are reachable, "
                "initial/final/counter consistency; non-trivial = distinct record whose input has >= 2 states")
    run.assumptions = list(AUT_ASSUME)
    out, out2 = _dfa_traces(run, "C04")
    nt = lambda r: r.get("op") == "minimize" and len(r["before"]["final"]) >= 2
    need = {"shrinks": lambda r: r.get("op") == "minimize" and len(r["after"]["final"]) < len(r["before"]["final"]),
            "already_minimal": lambda r: r.get("op") == "minimize" and len(r["after"]["final"]) == len(r["before"]["final"]) >= 2,
            "all_final": lambda r: r.get("op") == "minimize" and all(r["before"]["final"]),
            "none_final": lambda r: r.get("op") == "minimize" and not any(r["before"]["final"])}
    run.validate("dfa_minimize", os.path.join(out, "dfa_minimize.ndjson"), "Trace_Automata", "Trace_Automata.cfg",
                 ["C04:", "minimize", "compile/"], workers=workers(run), nontrivial=nt, need=need, timeout=3000)
    run.validate("dfa_random_minimize", os.path.join(out2, "dfa_random_minimize.ndjson"), "Trace_Automata",
                 "Trace_Automata.cfg", ["C04:", "minimize", "compile/"], workers=workers(run), nontrivial=nt,
                 need={"compiled": lambda r: r.get("style") == 9, "big": lambda r: r.get("op") == "minimize" and len(r["before"]["final"]) >= 8},
                 timeout=3000)
    # minimize() on the automata AutomatonBuilder::build returns for the C13 call-sequence families
    out5, info5 = _drive(run, "builder", sub="random", extra=["--for", "C04"])
    run.validate("builder_minimize", os.path.join(out5, "builder_minimize.ndjson"), "Trace_Automata", "Trace_Automata.cfg",
                 ["C04:", "minimize"], workers=workers(run), nontrivial=nt, timeout=3000)
    # the refinement itself, step by step (hooks in minimizer.rs, spec Hopcroft.tla)
    hop_note = ("every behaviour of the Hopcroft state machine (every choice of splitter and of re-activated halves) on "
                "every DFA of the scope ends in the Myhill-Nerode partition and never separates equivalent states")
    run.model("MC_Hopcroft", "MC_Hopcroft.cfg", workers=workers(run), timeout=3000, note=hop_note + " (<= 3 states x 2 letters)")
    if run.tier == "thorough":
        run.model("MC_Hopcroft", "MC_Hopcroft3.cfg", workers=workers(run), timeout=3000, note=hop_note + " (<= 2 states x 3 letters)")
        run.model("MC_Hopcroft", "MC_Hopcroft4.cfg", workers=workers(run), timeout=3000, note=hop_note + " (<= 4 states x 1 letter)")
    scen = os.path.join(run.workdir, "dfa_scen.ndjson")
    out3, info3 = _drive(run, "hopcroft", sub="hopcroft", extra=["--scen", scen])
    # only the end result is implied by C04; the round-level obligations bind the code to OUR refinement spec
    run.validate("hopcroft", os.path.join(out3, "hopcroft.ndjson"), "Trace_Hopcroft", "Trace_Hopcroft.cfg",
                 ["HOP:ends_in_nerode_partition", "minimize"], note_prefixes=["HOP:"], workers=workers(run), timeout=3000,
                 nontrivial=lambda r: sum(1 for e in r.get("events", []) if e.get("k") == "pick") >= 2,
                 need={"rounds": lambda r: sum(1 for e in r.get("events", []) if e.get("k") == "pick") >= 3,
                       "self_refine": lambda r: any(e.get("k") == "pick" and set(e["b"]) & set(e["pred"]) for e in r.get("events", []))})
    run.extra["hooked_refinement_runs"] = info3
    # The refinement diverged from the internal specification (NOTE): that is not a violation of C04 by itself (another
    # correct refinement strategy would diverge too), but it is a reason to look much harder for an input on which
    # the END RESULT is wrong - many more DFAs of the shape refinement bugs need (few letters, many states).
    if any(st == "hopcroft" for (st, _n) in run.internal_notes):
        n_esc = 120000 if run.tier == "thorough" else 30000
        log("[C04] refinement diverged from Hopcroft.tla: escalating to %d more random DFAs" % n_esc)
        out4, info4 = _drive(run, "automata", sub="escalation", extra=["--for", "C04", "--escalate", str(n_esc)], timeout=1800)
        run.validate("dfa_escalation_minimize", os.path.join(out4, "dfa_escalation_minimize.ndjson"), "Trace_Automata",
                     "Trace_Automata.cfg", ["C04:", "minimize", "compile/"], workers=workers(run), nontrivial=nt, timeout=3000)
        run.extra["escalation"] = info4
    _components(run, {"fastset", "partition"}, ["fastset", "partition"])
    run.exhaustive = True
    run.extra["exhaustive_scope"] = "all complete DFAs with <= 3 states over 2 letters (TLC-enumerated)"


@check("C14")
def c14(run):
    run.rule = ("cases = the C04 automaton families and every second automaton accepted by build() in the C13 random "
                "call-sequence families; remove_unreachable_states: product fixpoint = same language and a "
                "bijection between the reachable states of the input and ALL states of the result; on input and "
                "result: combined_char_partition groups only characters with equal successors in every state, "
                "pick_alphabet has one character per class in class order, every cell of compile_successors equals "
                "next, edges/final_states/num_states/num_final_states agree with next; char_set_next on sets relative "
                "to the ranges; accepts(w) on whole words = stepping through next (every word of length 1, length 2 over four "
                "representatives, length 3 over two); non-trivial = distinct record whose input has an unreachable state or >= 3 states")
    run.assumptions = list(AUT_ASSUME)
    out, out2 = _dfa_traces(run, "C14")
    nt = lambda r: r.get("op") == "prune" and (len(r["after"]["final"]) < len(r["before"]["final"]) or len(r["before"]["final"]) >= 3)
    need = {"has_unreachable": lambda r: r.get("op") == "prune" and len(r["after"]["final"]) < len(r["before"]["final"]),
            "all_reachable": lambda r: r.get("op") == "prune" and len(r["after"]["final"]) == len(r["before"]["final"]),
            "with_default": lambda r: r.get("op") == "prune" and any(s["default"] for s in r["before"]["states"])}
    run.validate("dfa_prune", os.path.join(out, "dfa_prune.ndjson"), "Trace_Automata", "Trace_Automata.cfg",
                 ["C14:", "remove_unreachable"], workers=workers(run), nontrivial=nt, need=need, timeout=3000)
    run.validate("dfa_random_prune", os.path.join(out2, "dfa_random_prune.ndjson"), "Trace_Automata",
                 "Trace_Automata.cfg", ["C14:", "remove_unreachable", "compile/"], workers=workers(run), nontrivial=nt,
                 need={"compiled": lambda r: r.get("style") == 9}, timeout=3000)
    # automata that come out of AutomatonBuilder::build for the C13 call-sequence families (holes, overlaps, superfluous
    # defaults, tilings, landmark labels): whatever build() accepts, pruning and the tables must be right about it
    out3, info3 = _drive(run, "builder", sub="random", extra=["--for", "C14"])
    run.validate("builder_prune", os.path.join(out3, "builder_prune.ndjson"), "Trace_Automata", "Trace_Automata.cfg",
                 ["C14:", "remove_unreachable"], workers=workers(run), nontrivial=nt, timeout=3000)
    _components(run, {"table", "bfsqueue"}, ["compact_table", "bfsqueue"])
    run.exhaustive = True
    run.extra["exhaustive_scope"] = "all complete DFAs with <= 3 states over 2 letters (TLC-enumerated)"


# ------------------------------------------------------------------------------------ strings

def _u1_literals(run):
    run.model("MC_Literals", "MC_Literals_full.cfg" if run.tier == "thorough" else "MC_Literals.cfg",
              workers=workers(run), timeout=1500,
              note="operational LiteralParser = grammar-level Decode on all texts over 8 critical symbols and the "
                   "escape-attempt family")


@check("C06")
def c06(run):
    run.rule = ("cases = every call of str_concat/len/at/substr/prefixof/suffixof/contains/indexof/replace/replace_all "
                "with subjects of length <= 4 and patterns <= 2 (3 thorough) over {a,b}, replacements {eps,a,ba}, "
                "integer arguments {i32::MIN,-2,-1,0..len+2,i32::MAX-1,i32::MAX}; plus seeded random strings <= 12 over "
                "real code points (0, 0xFFFF/0x10000, 0x2FFFF) with patterns cut from the subject; long, periodic, anti-hash, "
                "rich-alphabet and heavy subjects (code points adding up to 2^32); oracle: SMT-LIB "
                "definitions in SmtStrings.tla; non-trivial = distinct record with non-empty subject and pattern")
    run.assumptions = ["small scope: the functions compare characters only for equality, so two letters and lengths <= 4 "
                       "reach every overlap/boundary case; not a proof over all strings"]
    out, info = _drive(run, "c06")
    fns = ["concat", "len", "at", "substr", "prefixof", "suffixof", "contains", "indexof", "replace", "replace_all"]
    need = {f: (lambda r, f=f: r.get("f") == f) for f in fns}
    need["indexof_empty_pattern_at_len"] = lambda r: r.get("f") == "indexof" and not r["t"] and r["i"] == len(r["s"])
    need["replace_all_overlap"] = lambda r: r.get("f") == "replace_all" and r["s"] == [97, 97, 97] and r["t"] == [97, 97]
    need["negative_index"] = lambda r: r.get("f") == "substr" and r["i"] < 0
    run.validate("c06_strings", os.path.join(out, "c06_strings.ndjson"), "Trace_Strings", "Trace_Strings.cfg",
                 ["C06:"], workers=workers(run), need=need,
                 nontrivial=lambda r: bool(r.get("s")) and (bool(r.get("t")) or "t" not in r))
    run.extra["driver"] = info


@check("C09")
def c09(run):
    run.rule = ("cases = str_lt/str_le on all pairs of strings <= 3 over {'0','9',0x2FFFF}; str_to_int/is_digit/to_code "
                "on digit strings around every power of ten, 2^31 and 2^32, leading zeros, non-digits; str_from_int and "
                "to_int(from_int(n)) on boundary and random n; str_from_code on boundary codes; to_code(from_code(x)) for "
                "EVERY x in 0..0x2FFFF+64; the same driver is built and run in the dev profile (overflow checks on) "
                "and in the release profile (off) and both traces are validated; non-trivial = distinct record")
    run.assumptions = ["the harness dev profile has overflow-checks on and the release profile off (harness/Cargo.toml); "
                       "both link /repo's working tree"]
    run.model("MC_Strings", "MC_Strings.cfg", workers=workers(run), timeout=900,
              note="Lt is a strict total order compatible with prefixes; Le = Lt or equal; ToInt(FromInt(n)) = n; "
                   "IndexOf/Contains/Replace consistency laws")
    profiles = {}
    for prof in ("dev", "release"):
        out, info = _drive(run, "c09", profile=prof, sub="c09-" + prof)
        profiles[prof] = info
        need = {"lt": lambda r: r.get("f") == "lt", "to_int_overflow": lambda r: r.get("f") == "to_int" and len(r["s"]) >= 11,
                "to_int_max": lambda r: r.get("f") == "to_int" and r["s"] == [50, 49, 52, 55, 52, 56, 51, 54, 52, 55],
                "codes": lambda r: r.get("op") == "codes", "from_int": lambda r: r.get("f") == "from_int"}
        run.validate("c09_" + prof, os.path.join(out, "c09_%s.ndjson" % prof), "Trace_Strings", "Trace_Strings.cfg",
                     ["C09:"], workers=workers(run), need=need)
    if profiles["dev"].get("overflow_checks") is not True or profiles["release"].get("overflow_checks") is not False:
        run.tool_errors.append("build profiles do not differ in overflow checks: %s" % json.dumps(profiles))
    run.extra["profiles"] = profiles


@check("C17")
def c17(run):
    run.rule = ("cases = every public constructor: From<char> on all plane boundaries, surrogate neighbours, U+2FFFF/"
                "U+30000, U+10FFFF and a stride sweep of U+0000..U+10FFFF (full sweep in the thorough tier); From<&str>/"
                "From<String>/parse_smt_literal on strings mixing those characters; From<u32>/<&[u32]>/<&[u32;N]>/"
                "<Vec<u32>> on boundary and random integers; each result is also turned into a regular expression; "
                "plus the result of every str_* call of the C06/C09 traces, every literal of the C08 trace, every "
                "get_string of the C05 trace and every regex replace of the C10 trace; non-trivial = distinct record with an out-of-range input")
    out, info = _drive(run, "c17")
    need = {v: (lambda r, v=v: r.get("via") == v) for v in ["str", "string", "char", "slice", "vec", "array", "u32", "literal"]}
    need["char_above_max"] = lambda r: r.get("op") == "chars" and any(x > core.MAXCHAR for x in r["in"])
    need["int_above_max"] = lambda r: r.get("via") == "vec" and any(x > core.MAXCHAR for x in r["in"])
    nt = lambda r: any(x > core.MAXCHAR for x in r.get("in", []))
    run.validate("c17_ctors", os.path.join(out, "c17_ctors.ndjson"), "Trace_Strings", "Trace_Strings.cfg",
                 ["C17:"], workers=workers(run), need=need, nontrivial=nt)
    # results of operations (the obligations tagged C17 on the other traces)
    o6, _ = _drive(run, "c06")
    run.validate("c06_strings", os.path.join(o6, "c06_strings.ndjson"), "Trace_Strings", "Trace_Strings.cfg",
                 ["C17:"], workers=workers(run), nontrivial=lambda r: False)
    o8, _ = _drive(run, "c08")
    run.validate("c08_literals", os.path.join(o8, "c08_literals.ndjson"), "Trace_Strings", "Trace_Strings.cfg",
                 ["C17:"], workers=workers(run), nontrivial=lambda r: False)
    o5, _ = _drive(run, "c05")
    run.validate("c05_empty", os.path.join(o5, "c05_empty.ndjson"), "Trace_Regex", "Trace_Regex.cfg",
                 ["C17:"], workers=workers(run), nontrivial=lambda r: False, timeout=1500)
    o10, _ = _drive(run, "c10")
    run.validate("c10_replace", os.path.join(o10, "c10_replace.ndjson"), "Trace_Regex", "Trace_Regex.cfg",
                 ["C17:"], workers=workers(run), nontrivial=lambda r: False, timeout=1500)
    run.extra["driver"] = info


@check("C08")
def c08(run):
    run.rule = ("cases = parse_smt_literal on every text of length <= 4 (5 thorough) over {\\,u,{,},0,3,f,g}, on the "
                "escape-attempt family (\\u, optional {, 0..5(6) digits from {0,2,3,F}, optional }, small contexts), braces "
                "at every position of an attempt, two consecutive attempts, every printable ASCII character after a backslash, "
                "well-formed escapes swept over the alphabet (landmarks + stride; every code point thorough), long texts and "
                "on seeded random texts with non-ASCII characters -- EVERY PREFIX of each text is parsed, binding each "
                "transition of the LiteralParser state machine; Display of every string <= 2 (3) over 13 content symbols, "
                "of content spelling escape sequences, of random strings, and Display/smt_char_as_string/char_to_smt of "
                "single code points (stride 61 plus all boundaries; all 196608 in the thorough tier): printable ASCII, "
                "quotes doubled, round trip through Decode; non-trivial = distinct record containing a backslash")
    run.assumptions = ["MC_Literals (run in this check): operational parser = grammar-level decoder on the small scope"]
    _u1_literals(run)
    out, info = _drive(run, "c08")
    need = {"parse": lambda r: r.get("op") == "parse", "print": lambda r: r.get("op") == "print",
            "printchars": lambda r: r.get("op") == "printchars",
            "print_backslash": lambda r: r.get("op") == "print" and 92 in r["s"],
            "parse_braced_escape": lambda r: r.get("op") == "parse" and r["x"][:3] == [92, 117, 123] and len(r["prefixes"][-1]) < len(r["x"]) - 3}
    run.validate("c08_literals", os.path.join(out, "c08_literals.ndjson"), "Trace_Strings", "Trace_Strings.cfg",
                 ["C08:"], workers=workers(run), need=need,
                 nontrivial=lambda r: 92 in r.get("x", []) or 92 in r.get("s", []))
    run.extra["driver"] = info


# ------------------------------------------------------------------------------------ C15

@check("C15")
def c15(run):
    run.rule = ("cases = every LoopRange call (add, add_point, scale, shift, contains, includes, mul, "
                "right_mul_is_exact, predicates) on all pairs of ranges with finite parameters <= 5 (6 thorough) and "
                "infinite starts likewise, all factors, judged by the set semantics on a window derived from the "
                "arguments; seeded random parameters < 2^15 judged by closed forms that MC_LoopRanges proves "
                "equivalent on the small scope; non-trivial = distinct pair/unary record with distinct operands")
    run.assumptions = ["window argument (W = P(P+1)+1, checked stable against 2W by MC_LoopRanges)",
                       "values >= 2^31 and the documented u32 overflow panics are outside the model"]
    run.model("MC_LoopRanges", "MC_LoopRanges_full.cfg" if run.tier == "thorough" else "MC_LoopRanges.cfg",
              workers=workers(run), timeout=1500,
              note="closed forms = set semantics; window stability; gap criterion of mk_loop's flattening rule; "
                   "obligations reject every wrong result range")
    out, info = _drive(run, "loopranges")
    need = {"pair_small": lambda r: r.get("op") == "pair" and r["small"],
            "pair_large": lambda r: r.get("op") == "pair" and not r["small"],
            "exact_true": lambda r: r.get("op") == "pair" and r["exact"] and r["r"][0] != r["r"][1] and r["s"][0] != r["s"][1],
            "exact_false": lambda r: r.get("op") == "pair" and not r["exact"],
            "infinite": lambda r: r.get("op") == "pair" and r["r"][1] < 0}
    run.validate("loopranges", os.path.join(out, "loopranges.ndjson"), "Trace_LoopRanges", "Trace_LoopRanges.cfg",
                 ["C15:"], workers=workers(run), need=need,
                 nontrivial=lambda r: r.get("op") == "unary" or (r.get("op") == "pair" and r["r"] != r["s"]))
    run.exhaustive = True
    run.extra["exhaustive_scope"] = "all pairs of ranges with parameters <= %d, all factors <= that" % (6 if run.tier == "thorough" else 5)
    run.extra["driver"] = info


# ------------------------------------------------------------------------------------ regex family

REGEX_ASSUME = [
    "MC_Regex (run in this check): the residual automaton used as oracle agrees with the denotational semantics on "
    "every kernel term of depth <= 2 over a 2-letter alphabet and every word of length <= 4",
    "region argument: one character per region of the end points of the AST and of every class/range the crate "
    "reports is explored (Trace_Product checks that the AST's regions are covered); thorough tier adds full "
    "196608-character scans for a sample of automata",
    "cases whose heuristic residual-automaton cost exceeds the limit (a few % of the random family) are checked on "
    "bounded words only, not exhaustively",
]


def _u1_regex(run):
    full = run.tier == "thorough"
    run.model("MC_Regex", "MC_Regex_full.cfg" if full else "MC_Regex.cfg", workers=workers(run), timeout=1500,
              note="residual automaton = denotational Matches on all kernel terms depth<=2 x words<=4; derived "
                   "constructors vs SMT-LIB literal definitions; exact emptiness vs bounded search")


def _gen_terms(run):
    """TLC enumerates construction programs of depth <= 2 (MC_Terms); quick: a seeded residue class."""
    path = os.path.join(run.workdir, "terms_scen.ndjson")
    stride = 40 if run.tier == "thorough" else 251
    run.generate("MC_Terms", "MC_Terms.cfg", path, timeout=1800,
                 env={"VH_STRIDE": str(stride), "VH_OFFSET": str(run.seed % stride)},
                 note="construction programs of depth <= 2 over 9 atoms (1 026 312 in all), every %d-th" % stride)
    run.rule += ("; plus construction programs enumerated by TLC from MC_Terms (depth <= 2 over 9 atoms, residue class "
                 "%d mod %d of 1 026 312)" % (run.seed % stride, stride))
    run.rule += ("; plus the systematic families grown from the seeded-change rounds (DESIGN 12.6): semantically empty / "
                 "universal terms and unions of two of them, subsumption, loops of loops, derivatives as operands, shared "
                 "sub-terms, adjacent and tiling ranges, literal-like terms, complements in non-head positions and "
                 "complemented heads with nullable tails, many derivative classes (9..40), different terms with the same "
                 "language under every binary constructor")
    return ["--terms", path]


def _ctor_steps(run, which, prefix):
    """One-step conformance with the model of the constructors / the derivative (Constructors.tla): semantic
    obligations belong to the property, structural ones (RULES:) are an internal specification -> NOTE."""
    out, info = _drive(run, "ctor", extra=_gen_terms(run) if run.tier == "thorough" else ())
    run.validate(which, os.path.join(out, which + ".ndjson"), "Trace_Constructors", "Trace_Constructors.cfg",
                 [prefix], workers=workers(run), timeout=1500, note_prefixes=("RULES:",),
                 nontrivial=lambda r: r.get("op") in ("ctor", "dstep") and (r.get("args") or r.get("subs")),
                 need={"semantic": lambda r: r.get("sem") is True,
                       "union": (lambda r: r.get("f") in ("union", "union_list")) if which == "ctor_steps"
                                else (lambda r: r.get("e", {}).get("k") == "alt")})
    run.extra["ctor_driver"] = info
    # a structural divergence (some rule is applied differently from the model) is not a violation, but it is a reason
    # to test the semantic obligations on many more steps: the thorough-size families
    if run.tier != "thorough" and any(st == which for (st, _n) in run.internal_notes):
        log("[%s] constructor/derivative steps diverged from Constructors.tla: escalating to the thorough-size families" % run.prop)
        out2 = os.path.join(run.workdir, "ctor_escalation")
        info2 = core.drive("ctor", out2, "thorough", run.seed, extra=(), profile="dev", timeout=1800, verb="drive")
        run.validate(which + "_escalation", os.path.join(out2, which + ".ndjson"), "Trace_Constructors",
                     "Trace_Constructors.cfg", [prefix], workers=workers(run), timeout=3000, note_prefixes=("RULES:",))
        run.extra["ctor_escalation"] = info2
    run.rule += ("; plus one-step conformance: every constructor call (resp. every derivative, one level at a time) "
                 "made on the real terms of the families is compared with the model of module Constructors "
                 "(language exactly; tree shape as NOTE-level internal specification)")


def _u1_rules(run):
    if run.tier == "thorough":
        run.model("MC_Rules", "MC_Rules.cfg", workers=workers(run), timeout=3000,
                  note="the rewrite rules of the smart constructors, as semantic equations, on every instantiation with R "
                       "over the depth-<=1 terms, S/T over the atoms and 10 x 10 loop ranges")


def _explored(r):
    return r.get("op") in ("dgraph", "automaton")


@check("C01")
def c01(run):
    run.rule = ("cases = construction programs: all of depth <= 1 over 18 atoms, a stratified sample of depth 2 "
                "over 6 atoms, a second alphabet layout, the semantically-empty family, seeded random programs "
                "of depth 2..5 over real code points; each built on fresh and dirty managers; exact product check "
                "of the derivative graph with the residual automaton of the AST (all strings) + str_in_re on all "
                "words <= 3 over 3 letters via ReManager and via the re_* wrappers; non-trivial = distinct record "
                "whose AST has depth >= 1")
    run.assumptions = list(REGEX_ASSUME)
    _u1_regex(run)
    _u1_rules(run)
    out, info = _drive(run, "c01", extra=_gen_terms(run))
    need = {"star": lambda r: r.get("rootop") == "star", "mk_loop": lambda r: r.get("rootop") == "mk_loop",
            "complement": lambda r: r.get("rootop") == "complement", "inter": lambda r: r.get("rootop") == "inter",
            "explored": _explored, "random": lambda r: r.get("fam") == "random"}
    nt = lambda r: r.get("ast", {}).get("k") not in ("none", "eps", "all", "allchar", "rng", "chr", "str")
    run.validate("c01_products", os.path.join(out, "c01_products.ndjson"), "Trace_Product", "Trace_Product.cfg",
                 ["C01:", "build/"], workers=workers(run), nontrivial=nt, need=need, timeout=1500)
    run.validate("c01_mem", os.path.join(out, "c01_mem.ndjson"), "Trace_Regex", "Trace_Regex.cfg",
                 ["C01:", "wrappers"], workers=workers(run), nontrivial=nt, timeout=1500,
                 need={"via_smt": lambda r: r.get("via") == "smt", "via_manager": lambda r: r.get("via") == "manager"})
    run.extra["driver"] = info
    _ctor_steps(run, "ctor_steps", "C01:")
    if run.tier == "thorough":
        run.model("MC_Constructors", "MC_Constructors.cfg", workers=workers(run), timeout=3000,
                  note="the model of the constructors and of the derivative rules explored in product with the residual "
                       "automaton of every kernel construction of depth <= 2: normal forms, nullable flag = finality "
                       "along every word, finite derivative closure")


@check("C02")
def c02(run):
    run.rule = ("cases = the C01 program families, each compiled with compile or try_compile(bound = number of "
                "derivatives); the automaton is dumped by calling next/is_final on region representatives and "
                "explored in product with the residual automaton of the AST; structure (sorted disjoint ranges, "
                "default iff needed), counters and accepts/str_next on sample words are checked per case; "
                "non-trivial = distinct record whose AST has depth >= 1")
    run.assumptions = list(REGEX_ASSUME)
    _u1_regex(run)
    out, info = _drive(run, "c02", extra=_gen_terms(run))
    nt = lambda r: r.get("ast", {}).get("k") not in ("none", "eps", "all", "allchar", "rng", "chr", "str")
    need = {"compile": lambda r: r.get("via") == "compile", "try_compile": lambda r: r.get("via") == "try_compile",
            "explored": _explored, "fullscan": lambda r: r.get("fullscan") is True}
    run.validate("c02_products", os.path.join(out, "c02_products.ndjson"), "Trace_Product", "Trace_Product.cfg",
                 ["C02:", "compile"], workers=workers(run), nontrivial=nt, need=need, timeout=1500)
    run.extra["driver"] = info


@check("C03")
def c03(run):
    run.rule = ("cases = the C01 program families; per term the derivative graph, and for the root and its first "
                "derivatives: the class list, class_derivative on every valid and three invalid ids, set_derivative "
                "on every pair of boundary points (end points of the classes and their neighbours, 0, 0x2FFFF), "
                "str_derivative on sample words; TLC spawns one product root per (class, representative character "
                "of the class), per accepted set (both end points) and per word: the returned term must denote the "
                "left quotient for all continuation strings; non-trivial = distinct record with >= 2 classes")
    run.assumptions = list(REGEX_ASSUME)
    _u1_regex(run)
    out, info = _drive(run, "c03", extra=_gen_terms(run))
    nt = lambda r: r.get("op") == "dgraph3" and len(r["cls"][0]["ranges"]) >= 1
    def setd(kind):
        def f(r):
            if r.get("op") != "dgraph3":
                return False
            for cl in r["cls"]:
                rs = cl["ranges"]
                for sd in cl["setd"]:
                    inside = any(lo <= sd["a"] and sd["b"] <= hi for lo, hi in rs)
                    disj = all(sd["b"] < lo or hi < sd["a"] for lo, hi in rs)
                    k = "inside" if inside else ("complement" if disj else "straddling")
                    if k == kind:
                        return True
            return False
        return f
    need = {"explored": lambda r: r.get("op") == "dgraph3", "set_inside": setd("inside"),
            "set_in_complement": setd("complement"), "set_straddling": setd("straddling"),
            "complement_class": lambda r: r.get("op") == "dgraph3" and -1 in r["cls"][0]["ids"],
            "no_complement_class": lambda r: r.get("op") == "dgraph3" and -1 not in r["cls"][0]["ids"]}
    run.validate("c03_products", os.path.join(out, "c03_products.ndjson"), "Trace_Product", "Trace_Product.cfg",
                 ["C03:", "build/"], workers=workers(run), nontrivial=nt, need=need, timeout=1500)
    run.extra["driver"] = info
    _ctor_steps(run, "deriv_steps", "C03:")


def _depth_ge1(r):
    return r.get("ast", {}).get("k") not in ("none", "eps", "all", "allchar", "rng", "chr", "str")


@check("C05")
def c05(run):
    run.rule = ("cases = the C01 program families plus the semantically-empty family under two alphabet layouts "
                "(intersections of disjoint languages, complements of universal languages built the long way, "
                "loops/concatenations over them); is_empty_re and get_string in both call orders; TLC decides "
                "emptiness of the AST exactly by reachability closure in the residual automaton and checks the "
                "witness against the AST; non-trivial = distinct record of depth >= 1")
    run.assumptions = list(REGEX_ASSUME)
    _u1_regex(run)
    out, info = _drive(run, "c05", extra=_gen_terms(run))
    need = {"empty_not_syntactic": lambda r: r.get("op") == "empty" and r["empty"] and not r["syn_empty"],
            "nonempty_with_witness": lambda r: r.get("op") == "empty" and r["has_w"] and len(r["w"]) >= 2,
            "exact": lambda r: r.get("exact") is True}
    run.validate("c05_empty", os.path.join(out, "c05_empty.ndjson"), "Trace_Regex", "Trace_Regex.cfg",
                 ["C05:", "is_empty_re/"], workers=workers(run), nontrivial=_depth_ge1, need=need, timeout=1500)
    run.extra["driver"] = info
    _components(run, {"labeledqueue", "bfs"}, ["labeledqueue", "bfs"])


@check("C18")
def c18(run):
    run.rule = ("cases = the C01/C05 program families; start_char on every region representative (end points of "
                "the AST and of the term's derivative classes, their neighbours, 0, 0x2FFFF), start_class on every "
                "valid class id and on invalid ones, in both call orders; oracle: exact non-emptiness of the left "
                "quotient (reachability closure in the residual automaton); non-trivial = distinct record of depth >= 1")
    run.assumptions = list(REGEX_ASSUME)
    _u1_regex(run)
    out, info = _drive(run, "c18", extra=_gen_terms(run))
    need = {"inter_root": lambda r: r.get("rootop") in ("inter", "inter_list"),
            "concat_root": lambda r: r.get("rootop") in ("concat", "concat_list"),
            "some_true": lambda r: r.get("op") == "start" and any(r["res"]),
            "some_false": lambda r: r.get("op") == "start" and not all(r["res"]),
            "sem_empty": lambda r: r.get("fam") == "sem-empty"}
    run.validate("c18_start", os.path.join(out, "c18_start.ndjson"), "Trace_Regex", "Trace_Regex.cfg",
                 ["C18:", "start_char/"], workers=workers(run), nontrivial=_depth_ge1, need=need, timeout=1500)
    # BadClassId for start_class is also exercised from the class records of the C03 driver
    run.extra["driver"] = info


@check("C19")
def c19(run):
    run.rule = ("cases = the C01 program families plus loops with counters up to 40; iter_derivatives listed twice "
                "(addresses), char_derivative on every region representative of every listed term, try_compile at "
                "bounds 0, L-1, L, L+1, usize::MAX, compile; non-trivial = distinct record with >= 3 derivatives")
    run.assumptions = ["region argument as in C01", "terms with more than 1500 derivatives: counts and bounds only, "
                       "closedness not examined; iteration cap 200000 = 'does not terminate'"]
    out, info = _drive(run, "c19", extra=_gen_terms(run))
    need = {"many": lambda r: r.get("len", 0) >= 40, "counters": lambda r: r.get("fam") == "counters",
            "closure": lambda r: r.get("op") == "closure"}
    run.validate("c19_closure", os.path.join(out, "c19_closure.ndjson"), "Trace_Regex", "Trace_Regex.cfg",
                 ["C19:", "iter_derivatives/"], workers=workers(run), nontrivial=lambda r: r.get("len", 0) >= 3,
                 need=need, timeout=1500)
    run.extra["driver"] = info


@check("C16")
def c16(run):
    run.rule = ("cases = ordered pairs: all pairs of 14 factors, random concatenations of <= 4 factors on each side "
                "(with complement/union/intersection wrappers), widening pairs, sub-term pairs of random programs, "
                "singleton / min-length / loop-vs-nested-loop pairs, one element of a rigid run repeated at every position; "
                "whenever included_in answers true TLC decides L(r) subset L(s) exactly (emptiness of r & ~s by "
                "closure); false answers are not judged; non-trivial = distinct pair answered true with r != s, "
                "r not none, s not all")
    run.assumptions = list(REGEX_ASSUME)
    _u1_regex(run)
    out, info = _drive(run, "c16")
    nt = lambda r: (r.get("op") == "incl" and r["res"] and not r["same"] and r["a"].get("k") != "none"
                    and r["b"].get("k") != "all")
    need = {"true_nonidentical": nt, "false": lambda r: r.get("op") == "incl" and not r["res"],
            "complement_pair": lambda r: r.get("op") == "incl" and r["res"] and r["a"].get("k") == "not" and r["b"].get("k") == "not",
            "union_rhs_true": lambda r: r.get("op") == "incl" and r["res"] and r["b"].get("k") == "alt"}
    run.validate("c16_incl", os.path.join(out, "c16_incl.ndjson"), "Trace_Regex", "Trace_Regex.cfg",
                 ["C16:", "included_in"], workers=workers(run), nontrivial=nt, need=need, timeout=1500,
                 note_prefixes=("RULES:",))
    run.extra["driver"] = info
    if run.tier == "thorough":
        run.model("MC_SubLang", "MC_SubLang.cfg", workers=workers(run), timeout=3000,
                  note="the transcribed syntactic inclusion test (Constructors!SubLangN) is sound on 7.3 million pairs: "
                       "concatenations of <= 4 factors against concatenations of <= 5 factors, and all pairs of depth-<=1 terms")


@check("C10")
def c10(run):
    run.rule = ("cases = str_replace_re and str_replace_re_all (SMT-LIB-named wrappers, fresh and long-lived "
                "thread-local managers) for every pattern of depth <= 1 over {none,eps,a,b,[a-b],allchar,all}, a "
                "stratified sample of depth 2 and seeded random patterns, on every subject of length <= 3 and a "
                "sample of length 4 (5 thorough) over {a,b}, replacements {eps, X, ab}; overlapping / competing / literal / "
                "boundary-letter families; loops over every class of three letters x<y<z (intervals and {x,z}) next to "
                "every class, all subjects up to length 4 over x,y,z; oracle: leftmost-then-shortest "
                "search over the residual automaton (checked against the SMT-LIB clause on Matches by MC_Regex); "
                "non-trivial = distinct pattern record of depth >= 1")
    run.assumptions = list(REGEX_ASSUME)
    _u1_regex(run)
    out, info = _drive(run, "c10")
    need = {"nullable_pattern": lambda r: r.get("nullable") is True, "non_nullable": lambda r: r.get("nullable") is False,
            "complement": lambda r: r.get("ast", {}).get("k") == "not",
            "changed": lambda r: any(c["r"] != c["s"] for c in r.get("calls", [])),
            "unchanged": lambda r: any(c["r"] == c["s"] for c in r.get("calls", []))}
    run.validate("c10_replace", os.path.join(out, "c10_replace.ndjson"), "Trace_Regex", "Trace_Regex.cfg",
                 ["C10:", "wrappers", "str_replace_re"], workers=workers(run), nontrivial=_depth_ge1, need=need, timeout=1500)
    run.extra["driver"] = info
    run.extra["calls_validated"] = sum(len(r.get("calls", [])) for r in core.read_ndjson(os.path.join(out, "c10_replace.ndjson"))) \
        if os.path.exists(os.path.join(out, "c10_replace.ndjson")) else 0


@check("C07")
def c07(run):
    run.rule = ("histories = TLC-generated: every prefix of <= 2 disturbing calls (constructions of the target's "
                "operands, complements and super-terms in every order; char_derivative, compile, is_empty_re, "
                "iter_derivatives) followed by one of 140 target constructions sensitive to id order; the harness then "
                "re-issues every earlier construction and the target, compares identities, queries membership and "
                "emptiness; each history runs on a fresh ReManager, on the thread-local manager in a fresh thread and "
                "on a thread-local manager that served earlier histories (quick: a seeded 1/12 sample of the generated "
                "histories; thorough: all, plus prefixes of 3 by TLC simulation); plus long seeded random histories "
                "(60-150 calls on one manager); non-trivial = distinct history with >= 8 constructor calls")
    run.assumptions = ["identities are addresses of the returned &'static RE, renumbered 1,2,3,... by the harness",
                       "language independence of history: nullable flag, membership of 17 words, exact emptiness, and (fresh-"
                       "manager histories) the exact product of the target's derivative graph with the residual automaton"]
    run.model("MC_HashCons", "MC_HashCons.cfg", workers=4, timeout=600,
              note="the id scheme of hash-consing (six predefined terms, x / complement(x) on adjacent even/odd ids): table "
                   "injective, complement an involution without fixed point, the complement-pair test of "
                   "simplify_set_operation exact (and unsound without its parity condition)")
    scen = os.path.join(run.workdir, "manager_scen.ndjson")
    full = run.tier == "thorough"
    run.generate("MC_Manager", "MC_Manager.cfg", scen, timeout=1200,
                 note="all histories prefix(<=2 of 16 disturbing calls) . target(140)")
    if full:
        scen3 = os.path.join(run.workdir, "manager_scen3.ndjson")
        run.generate("MC_Manager", "MC_Manager3.cfg", scen3, timeout=1200, simulate="num=40",
                     note="random prefixes of length 3 (TLC simulation), all targets each")
        with open(scen, "a") as f, open(scen3) as g:
            f.write(g.read())
    else:
        s = run.seed % 16
        total, kept = _sample(scen, lambda k, r: k % 16 == s or len(r["prefix"]) == 0 or (len(r["prefix"]) == 1 and k % 4 == s % 4))
        run.extra["quick_sample"] = "%d of %d generated histories" % (kept, total)
    out, info = _drive(run, "manager", verb="replay", sub="replay", extra=["--scen", scen], timeout=3000)
    out2, info2 = _drive(run, "manager", sub="random")
    nmk = lambda r: sum(1 for e in r.get("events", []) if e.get("k") == "mk")
    need = {"manager_fresh": lambda r: r.get("via") == "manager-fresh", "smt_fresh": lambda r: r.get("via") == "smt-fresh",
            "smt_dirty": lambda r: r.get("via") == "smt-dirty",
            "reissue_hits": lambda r: nmk(r) >= 8,
            "complement": lambda r: any(e.get("api") in ("complement", "re_comp") for e in r.get("events", []))}
    run.validate("manager_hist", os.path.join(out, "manager_hist.ndjson"), "Trace_Manager", "Trace_Manager.cfg",
                 ["C07:"], workers=workers(run), nontrivial=lambda r: nmk(r) >= 8, need=need, timeout=3000, heap="10g")
    run.validate("manager_products", os.path.join(out, "manager_products.ndjson"), "Trace_Product", "Trace_Product.cfg",
                 ["C07:", "C01:nullable"], workers=workers(run), nontrivial=_depth_ge1, timeout=3000)
    run.validate("manager_random", os.path.join(out2, "manager_random.ndjson"), "Trace_Manager", "Trace_Manager.cfg",
                 ["C07:"], workers=workers(run), nontrivial=lambda r: nmk(r) >= 8, timeout=3000)
    # several managers alive at once and used alternately (plus a concurrently running wrapper thread): the families
    # of C01, membership judged against the AST
    out3, info3 = _drive(run, "c01", sub="interleaved")
    run.validate("c07_interleaved", os.path.join(out3, "c07_interleaved.ndjson"), "Trace_Regex", "Trace_Regex.cfg",
                 ["C07:"], workers=workers(run), nontrivial=_depth_ge1, timeout=1500)
    run.extra["driver"] = [info, info2, info3]


# ------------------------------------------------------------------------------------ housekeeping

def sany():
    bad = 0
    for f in sorted(glob.glob(os.path.join(SPEC, "*.tla"))):
        # the two proof modules extend TLAPS / NaturalsInduction, which live in tlapm's library
        p = subprocess.run(["java", "-DTLA-Library=/opt/veriftools/tlapm/lib/tlapm/stdlib", "-cp", core.JAR,
                            "tla2sany.SANY", os.path.basename(f)], cwd=SPEC,
                           stdout=subprocess.PIPE, stderr=subprocess.STDOUT, text=True)
        ok = p.returncode == 0 and "error" not in p.stdout.lower().replace("errors: 0", "")
        log("[sany] %s %s" % (os.path.basename(f), "ok" if ok else "FAILED"))
        if not ok:
            log(p.stdout[-1500:])
            bad += 1
    return 2 if bad else 0


def all_u1(ids):
    """Run every design-level model (no implementation in the loop)."""
    models = [("MC_Chars", "MC_Chars.cfg"), ("MC_Regex", "MC_Regex.cfg"), ("MC_Literals", "MC_Literals.cfg"),
              ("MC_Strings", "MC_Strings.cfg"), ("MC_LoopRanges", "MC_LoopRanges.cfg"), ("MC_Dfa", "MC_Dfa.cfg"),
              ("MC_PartGen", "MC_PartGen.cfg"), ("MC_Builder", "MC_Builder.cfg"), ("MC_Manager", "MC_Manager.cfg"),
              ("MC_Hopcroft", "MC_Hopcroft.cfg"), ("MC_Components", "MC_Components.cfg"), ("MC_Terms", "MC_Terms.cfg"), ("MC_Rules", "MC_Rules.cfg"), ("MC_HashCons", "MC_HashCons.cfg"), ("MC_CoverSearch", "MC_CoverSearch.cfg"), ("MC_MergeSweep", "MC_MergeSweep.cfg"), ("MC_MergeList", "MC_MergeList.cfg"), ("MC_Constructors", "MC_Constructors.cfg"), ("MC_SubLang", "MC_SubLang.cfg")]
    bad = 0
    for m, c in models:
        if ids and m not in ids:
            continue
        r = core.run_tlc(m, c, workers=12, timeout=1500)
        log("[u1] %s: %s, %d distinct states, %.1fs" % (m, "ok" if r.ok else "FAILED", r.distinct, r.wall))
        if not r.ok:
            log(r.error[:1500])
            bad += 1
    return 2 if bad else 0


def proofs():
    """TLAPS: unbounded versions of two arithmetic facts the finite checks rely on."""
    import re
    res = []
    bad = 0
    for mod in ("RegionLemma", "GapLemma", "LoopLemmas", "WitnessLemma", "RefineLemma"):
        p = subprocess.run(["timeout", "900", "tlapm", "--threads", "8", "--cleanfp", mod + ".tla"], cwd=SPEC,
                           stdout=subprocess.PIPE, stderr=subprocess.STDOUT, text=True)
        m = re.search(r"All (\d+) obligations? proved", p.stdout)
        res.append({"module": mod, "ok": bool(m), "obligations": int(m.group(1)) if m else 0,
                    "cmd": "tlapm --threads 8 --cleanfp %s.tla" % mod, "tail": p.stdout[-400:]})
        log("[proofs] %s: %s (%d obligations)" % (mod, "all proved" if m else "FAILED", res[-1]["obligations"]))
        bad += 0 if m else 1
    with open(os.path.join(core.VERIF, "reports", "proofs.json"), "w") as f:
        json.dump(res, f, indent=1)
    return 2 if bad else 0


# ---- selftest: corrupt recorded data, the validator must reject it (DESIGN 4.5) ----

def _flip(rec, path):
    cur = rec
    for k in path[:-1]:
        cur = cur[k]
    cur[path[-1]] = not cur[path[-1]]
    return True


def _m_products(rec, rnd):
    if rec.get("op") not in ("dgraph", "dgraph3", "automaton") or len(rec["final"]) < 2:
        return False
    # flip the finality of a node that the exploration certainly reaches: the root
    root = rec["roots"][0]["s"]
    rec["final"][root - 1] = not rec["final"][root - 1]
    if "nullable" in rec:
        pass  # nullable left as logged: the product must notice on its own
    return True


def _m_products_edge(rec, rnd):
    if rec.get("op") not in ("dgraph", "dgraph3", "automaton"):
        return False
    n = len(rec["final"])
    root = rec["roots"][0]["s"]
    row = rec["delta"][root - 1]
    # redirect an edge of the root to a node of different finality, if any
    for j, t in enumerate(row):
        for cand in range(1, n + 1):
            if rec["final"][cand - 1] != rec["final"][t - 1]:
                row[j] = cand
                return True
    return False


def _m_mem(rec, rnd):
    if rec.get("op") != "mem" or not rec["res"]:
        return False
    i = rnd.randrange(len(rec["res"]))
    rec["res"][i] = not rec["res"][i]
    return True


def _m_c03(rec, rnd):
    if rec.get("op") != "dgraph3":
        return False
    cl = rec["cls"][0]
    for sd in cl["setd"]:
        if sd["res"] != "ok":
            sd["res"] = "ok"
            sd["s"] = 1
            return True
    if cl["bad"]:
        cl["bad"][0]["res"] = "ok"
        return True
    return False


def _m_field(op, field, fn):
    def m(rec, rnd):
        if rec.get("op") != op and rec.get("f") != op:
            return False
        rec[field] = fn(rec[field], rec, rnd)
        return True
    return m


def _m_c06(rec, rnd):
    if rec.get("op") != "f":
        return False
    if "ri" in rec:
        rec["ri"] += 1
    elif "rb" in rec:
        rec["rb"] = not rec["rb"]
    elif "rs" in rec:
        rec["rs"] = rec["rs"] + [97]
    else:
        return False
    return True


def _m_c07(rec, rnd):
    ev = rec.get("events", [])
    mks = [i for i, e in enumerate(ev) if e.get("k") == "mk"]
    seen = {}
    for i in mks:
        key = (ev[i]["api"], tuple(ev[i]["key"]))
        if key in seen:
            ev[i]["res"] = ev[i]["res"] + 1000      # a re-issued construction now "returns" another object
            return True
        seen[key] = i
    return False


def _m_c08(rec, rnd):
    if rec.get("op") == "parse" and rec["x"]:
        rec["prefixes"][-1] = rec["prefixes"][-1] + [65]
        return True
    if rec.get("op") == "print" and 92 in rec["s"]:
        # (printing a lone backslash raw is a legitimate Display form whenever it still round-trips - benign set B3 -
        # so the corruption must be one no correct implementation could produce: a character too many)
        rec["body"] = list(rec["body"]) + [65]
        return True
    return False


def _m_c10(rec, rnd):
    if rec.get("op") != "replace_re" or not rec["calls"]:
        return False
    c = rnd.choice(rec["calls"])
    c["r"] = c["r"] + [120]
    return True


def _m_c11(rec, rnd):
    if rec.get("op") != "part" or rec.get("res") != "ok":
        return False
    if rec.get("sets") and rnd.random() < 0.5:
        q = rnd.choice(rec["sets"])
        q["good"] = not q["good"]
        return True
    if rec.get("chars"):
        q = rnd.choice(rec["chars"])
        q["cid"] = q["cid"] + 1
        return True
    st = rec["steps"][-1]
    st["nclasses"] += 1
    return True


def _m_c12(rec, rnd):
    if rec.get("op") == "merge" and len(rec["m"]["ivs"]) >= 1:
        iv = rec["m"]["ivs"]
        if len(iv) >= 2 and iv[0][1] + 1 == iv[1][0]:
            iv[0:2] = [[iv[0][0], iv[1][1]]]          # fuse two adjacent classes: no longer a refinement
        else:
            del iv[0]                                  # drop a class: complement no longer the intersection
        return True
    return False


def _m_c13(rec, rnd):
    if rec.get("op") != "builder":
        return False
    if rec["res"] == "ok":
        a = rec["aut"]
        a["final"][0] = not a["final"][0]
        return True
    if rec.get("gen_verdict") == "MustReject":
        return False
    return False


def _m_c13_verdict(rec, rnd):
    # an accepted MustAccept spec recorded as rejected
    if rec.get("op") == "builder" and rec["res"] == "ok" and rec.get("gen_verdict") == "MustAccept":
        rec["res"] = "err:NonDisjointCharSets"
        for k in ("aut", "str"):
            rec.pop(k, None)
        return True
    return False


def _m_c04(rec, rnd):
    if rec.get("op") != "minimize":
        return False
    b = rec["after"]
    i = b["init"] - 1
    b["final"][i] = not b["final"][i]
    return True


def _m_c14(rec, rnd):
    if rec.get("op") != "prune" or "cells" not in rec.get("str", {}):
        return False
    cells = rec["str"]["cells"]
    n = len(cells)
    if n < 2 or not cells[0]:
        return False
    cells[0][0] = cells[0][0] % n + 1
    return True


def _m_c15(rec, rnd):
    if rec.get("op") == "pair":
        rec["add"] = [rec["add"][0] + 1, rec["add"][1]] if rec["add"][1] < 0 or rec["add"][0] < rec["add"][1] else [rec["add"][0], rec["add"][1] + 1]
        return True
    return False


def _m_c16(rec, rnd):
    if rec.get("op") == "incl" and not rec["res"] and rec["a"].get("k") == "all":
        rec["res"] = True                # "all included in b" for a b that is not all
        return rec["b"].get("k") in ("chr", "eps", "rng", "cat")
    return False


def _m_c17(rec, rnd):
    if rec.get("op") == "ctor" and rec["out"]:
        rec["out"][0] = 0x30000
        return True
    return False


def _m_c18(rec, rnd):
    if rec.get("op") == "start" and rec["res"]:
        i = rnd.randrange(len(rec["res"]))
        rec["res"][i] = not rec["res"][i]
        return True
    return False


def _m_c19(rec, rnd):
    if rec.get("op") == "closure":
        rec["compile_ns"] += 1
        return True
    return False


def _m_c20(rec, rnd):
    op = rec.get("op")
    if op in ("inter", "union"):
        rec["r"] = [] if rec["r"] else list(rec["c"])
        return True
    if op == "covers":
        rec["r"] = not rec["r"]
        return True
    return False


def _m_c05(rec, rnd):
    if rec.get("op") == "empty" and rec.get("exact"):
        rec["empty"] = not rec["empty"]
        return True
    return False


def _m_c09(rec, rnd):
    if rec.get("op") == "codes":
        rec["tc"][len(rec["tc"]) // 2] += 1
        return True
    return _m_c06(rec, rnd)


def _m_ctor(rec, rnd):
    if not rec.get("sem"):
        return False
    if rec.get("op") == "ctor" and rec.get("f") in ("concat", "union", "inter", "star", "opt", "complement", "mk_loop"):
        rec["res"] = {"k": "eps"} if rec["res"].get("k") != "eps" else {"k": "none"}
        rec["nullable"] = rec["res"]["k"] == "eps"
        return True
    if rec.get("op") == "dstep" and rec["e"].get("k") in ("cat2", "loop", "alt", "and", "not"):
        rec["res"] = {"k": "eps"} if rec["res"].get("k") != "eps" else {"k": "none"}
        return True
    return False


SELFTEST = {
    "C01": [{"c01_products": _m_products, "c01_mem": _m_mem, "ctor_steps": _m_ctor}, {"c01_products": _m_products_edge}],
    "C02": [{"c02_products": _m_products}, {"c02_products": _m_products_edge}],
    "C03": [{"c03_products": _m_c03, "deriv_steps": _m_ctor}, {"c03_products": _m_products_edge}],
    "C04": [{"dfa_minimize": _m_c04, "dfa_random_minimize": _m_c04}],
    "C05": [{"c05_empty": _m_c05}],
    "C06": [{"c06_strings": _m_c06}],
    "C07": [{"manager_hist": _m_c07, "manager_random": _m_c07}],
    "C08": [{"c08_literals": _m_c08}],
    "C09": [{"c09_dev": _m_c09, "c09_release": _m_c09}],
    "C10": [{"c10_replace": _m_c10}],
    "C11": [{"part_objects": _m_c11, "part_random": _m_c11}],
    "C12": [{"part_merges": _m_c12, "part_random_merges": _m_c12}],
    "C13": [{"builder": _m_c13, "builder_random": _m_c13}, {"builder": _m_c13_verdict}],
    "C14": [{"dfa_prune": _m_c14, "dfa_random_prune": _m_c14}],
    "C15": [{"loopranges": _m_c15}],
    "C16": [{"c16_incl": _m_c16}],
    "C17": [{"c17_ctors": _m_c17}],
    "C18": [{"c18_start": _m_c18}],
    "C19": [{"c19_closure": _m_c19}],
    "C20": [{"charsets": _m_c20}],
}


def selftest(ids, seed):
    """For each property: re-run the check's drivers, corrupt up to 40 records per stage, and require the TLA+
    validator to reject at least 90% of the corrupted records (a corruption can occasionally be semantically
    neutral) -- the demonstration that the specification is bound to what the code did."""
    bad = 0
    summary = {}
    for pid in (ids or sorted(SELFTEST)):
        for variant in SELFTEST[pid]:
            run = core.Run(pid, "quick", seed)
            run.selftest = variant
            try:
                CHECKS[pid](run)
            except ToolError as e:
                log("TOOL-ERROR in selftest %s: %s" % (pid, e))
                bad += 1
            import shutil
            shutil.rmtree(run.workdir, ignore_errors=True)
            for r in run.selftest_results:
                ok = r["tlc_ok"] and r["corrupted"] > 0 and r["rejected"] >= 0.9 * r["corrupted"]
                summary.setdefault(pid, []).append(dict(r, ok=ok))
                if not ok:
                    bad += 1
                    log("SELFTEST FAILED %s %s" % (pid, json.dumps(r)))
            if not run.selftest_results:
                bad += 1
                log("SELFTEST FAILED %s: no stage exercised" % pid)
    with open(os.path.join(core.VERIF, "reports", "selftest.json"), "w") as f:
        json.dump(summary, f, indent=1)
    log("[selftest] %s" % ("all corruptions rejected" if not bad else "%d failure(s)" % bad))
    return 2 if bad else 0


def replay(pid, path):
    """Re-execute the check with the recorded tier/seed and report whether the recorded obligation still fails
    on the same input (drivers are deterministic in tier and seed)."""
    with open(path) as f:
        rp = json.load(f)
    run = core.Run(pid, rp.get("tier", "quick"), rp.get("seed", 1))
    try:
        CHECKS[pid](run)
    except ToolError as e:
        run.tool_errors.append(str(e))
    want = (rp.get("stage"), rp.get("obligation"), json.dumps(rp.get("record"), sort_keys=True))
    hit = [v for v in run.violations
           if (v["stage"], v["obligation"], json.dumps(v["record"], sort_keys=True)) == want]
    rc = run.finish()
    if hit:
        print("REPLAY: reproduced %s at %s" % (rp.get("obligation"), rp.get("stage")))
        return 1
    print("REPLAY: not reproduced (exit of full check: %d)" % rc)
    return 0 if rc != 2 else 2

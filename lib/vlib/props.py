"""Per-property check definitions (DESIGN section 5).  Each function receives a core.Run."""
import copy
import glob
import json
import os
import subprocess

from vlib import core
from vlib.core import SPEC, ToolError, log

CHECKS = {}


def check(pid):
    def deco(fn):
        CHECKS[pid] = fn
        return fn
    return deco


def _drive(run, family, extra=(), profile="dev", sub=None, timeout=900):
    out = os.path.join(run.workdir, sub or family)
    info = core.drive(family, out, run.tier, run.seed, extra=extra, profile=profile, timeout=timeout)
    return out, info


def workers(run):
    return 16 if run.tier == "thorough" else 12


# ------------------------------------------------------------------------------------ C20

def _c20_nontrivial(r):
    op = r.get("op")
    if op in ("inter", "union", "covers", "cmp"):
        return r["c"] != r["d"]
    if op == "interlist":
        return len(r["cs"]) >= 2
    return op in ("point", "unary")


@check("C20")
def c20(run):
    run.rule = ("events = CharSet calls on every pair (triple for inter_list) of intervals of a 7-block embedding of "
                "0..6 into 0..0x2FFFF under several seeded block layouts, plus seeded random real intervals with "
                "+-1 neighbours; non-trivial = distinct record whose operands differ (pairs), >= 2 operands (lists), "
                "or any point/unary query")
    run.assumptions = ["region lemma (checked by MC_Chars for every candidate result on 0..4): quantifying over "
                       "region representatives equals quantifying over all 196608 characters",
                       "end points of result sets are read through the Debug form of CharSet"]
    run.model("MC_Chars", "MC_Chars.cfg", workers=workers(run),
              note="closed forms satisfy the set-theoretic obligations; region lemma for every candidate result")
    out, _ = _drive(run, "charsets")
    ops = ["ctor", "unary", "point", "inter", "union", "covers", "cmp", "interlist"]
    need = {o: (lambda r, o=o: r.get("op") == o) for o in ops}
    need["union_some_adjacent"] = lambda r: r.get("op") == "union" and r["r"] and (r["c"][1] + 1 == r["d"][0])
    need["union_none"] = lambda r: r.get("op") == "union" and not r["r"]
    need["inter_none"] = lambda r: r.get("op") == "inter" and not r["r"]
    need["cmp_none"] = lambda r: r.get("op") == "cmp" and r["r"] == "none"
    need["touches_0_and_max"] = lambda r: r.get("op") == "union" and r["c"][0] == 0 and r["d"][1] == core.MAXCHAR
    run.validate("charsets", os.path.join(out, "charsets.ndjson"), "Trace_Chars", "Trace_Chars.cfg", ["C20:"],
                 workers=workers(run), nontrivial=_c20_nontrivial, need=need)
    run.exhaustive = False


# ------------------------------------------------------------------------------------ housekeeping

def sany():
    bad = 0
    for f in sorted(glob.glob(os.path.join(SPEC, "*.tla"))):
        p = subprocess.run(["java", "-cp", core.JAR, "tla2sany.SANY", os.path.basename(f)], cwd=SPEC,
                           stdout=subprocess.PIPE, stderr=subprocess.STDOUT, text=True)
        ok = p.returncode == 0 and "error" not in p.stdout.lower().replace("errors: 0", "")
        log("[sany] %s %s" % (os.path.basename(f), "ok" if ok else "FAILED"))
        if not ok:
            log(p.stdout[-1500:])
            bad += 1
    return 2 if bad else 0


def all_u1(ids):
    return 0


def selftest(ids, seed):
    return 0


def replay(pid, path):
    """Re-execute the check with the recorded tier/seed and report whether the recorded obligation still fails
    on the same input (drivers are deterministic in tier and seed)."""
    with open(path) as f:
        rp = json.load(f)
    run = core.Run(pid, rp.get("tier", "quick"), rp.get("seed", 1))
    try:
        CHECKS[pid](run)
    except ToolError as e:
        run.tool_errors.append(str(e))
    want = (rp.get("stage"), rp.get("obligation"), json.dumps(rp.get("record"), sort_keys=True))
    hit = [v for v in run.violations
           if (v["stage"], v["obligation"], json.dumps(v["record"], sort_keys=True)) == want]
    rc = run.finish()
    if hit:
        print("REPLAY: reproduced %s at %s" % (rp.get("obligation"), rp.get("stage")))
        return 1
    print("REPLAY: not reproduced (exit of full check: %d)" % rc)
    return 0 if rc != 2 else 2
